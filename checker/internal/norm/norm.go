// Package norm rewrites the runtime package into the factoring the rules were
// confirmed on, before the rules run. Every rewrite is behaviour-preserving on
// all non-panicking executions, so a verdict on the normalised program is a
// verdict on the program as written:
//
//   - an unexported function or method that the confirmed tree does not have
//     (a helper somebody extracted) is inlined into its callers; `go f(x)` and
//     `defer f(x)` of such a helper become a function literal with its body;
//   - an unexported function, method or struct field whose confirmed name is
//     gone while exactly one unknown declaration of the same shape exists (a
//     consistent rename) is renamed back.
//
// The result is a set of replacement file contents (an overlay); the caller
// reloads and type-checks the program with it. If anything about a site is
// not understood the site is left alone.
package norm

import (
	"bytes"
	_ "embed"
	"encoding/json"
	"fmt"
	"go/ast"
	"go/token"
	"go/types"
	"sort"
	"strings"

	"golang.org/x/tools/go/packages"
)

//go:embed baseline.json
var baselineJSON []byte

// Baseline is the shape of the runtime package on the confirmed tree.
type Baseline struct {
	Funcs  map[string]string            `json:"funcs"`  // "Recv.name" or "name" -> signature
	Fields map[string]map[string]string `json:"fields"` // struct -> field -> type
	Prints map[string][]string          `json:"prints"` // function key -> names it mentions (callees, selected fields)
}

// LoadBaseline decodes the embedded baseline.
func LoadBaseline() (*Baseline, error) {
	var b Baseline
	if err := json.Unmarshal(baselineJSON, &b); err != nil {
		return nil, err
	}
	return &b, nil
}

// DumpBaseline renders the baseline of a loaded package.
func DumpBaseline(pk *packages.Package) ([]byte, error) {
	b := Baseline{Funcs: map[string]string{}, Fields: map[string]map[string]string{}, Prints: map[string][]string{}}
	q := types.RelativeTo(pk.Types)
	for _, f := range pk.Syntax {
		if skipFile(pk, f) {
			continue
		}
		for _, d := range f.Decls {
			switch x := d.(type) {
			case *ast.FuncDecl:
				obj, _ := pk.TypesInfo.Defs[x.Name].(*types.Func)
				if obj == nil {
					continue
				}
				b.Funcs[funcKey(x)] = sigString(obj, q)
				if x.Body != nil {
					b.Prints[funcKey(x)] = fingerprint(x)
				}
			case *ast.GenDecl:
				for _, sp := range x.Specs {
					ts, ok := sp.(*ast.TypeSpec)
					if !ok {
						continue
					}
					st, ok := pk.TypesInfo.Defs[ts.Name].Type().Underlying().(*types.Struct)
					if !ok {
						continue
					}
					m := map[string]string{}
					for i := 0; i < st.NumFields(); i++ {
						m[st.Field(i).Name()] = types.TypeString(st.Field(i).Type(), q)
					}
					b.Fields[ts.Name.Name] = m
				}
			}
		}
	}
	return json.MarshalIndent(b, "", " ")
}

// fingerprint lists the selector names and called identifiers of a body:
// enough to tell same-shaped functions (sender / receiver) apart after a rename.
func fingerprint(fd *ast.FuncDecl) []string {
	set := map[string]bool{}
	ast.Inspect(fd.Body, func(x ast.Node) bool {
		switch y := x.(type) {
		case *ast.SelectorExpr:
			set[y.Sel.Name] = true
		case *ast.CallExpr:
			if id, ok := y.Fun.(*ast.Ident); ok {
				set[id.Name] = true
			}
		}
		return true
	})
	var out []string
	for k := range set {
		out = append(out, k)
	}
	sort.Strings(out)
	return out
}

func jaccard(a, b []string) float64 {
	if len(a) == 0 && len(b) == 0 {
		return 1
	}
	m := map[string]bool{}
	for _, x := range a {
		m[x] = true
	}
	inter := 0
	for _, x := range b {
		if m[x] {
			inter++
		}
	}
	return float64(inter) / float64(len(a)+len(b)-inter)
}

func sigString(f *types.Func, q types.Qualifier) string {
	sig := f.Type().(*types.Signature)
	var ps, rs []string
	for i := 0; i < sig.Params().Len(); i++ {
		ps = append(ps, types.TypeString(sig.Params().At(i).Type(), q))
	}
	for i := 0; i < sig.Results().Len(); i++ {
		rs = append(rs, types.TypeString(sig.Results().At(i).Type(), q))
	}
	v := ""
	if sig.Variadic() {
		v = "..."
	}
	return "(" + strings.Join(ps, ",") + v + ")(" + strings.Join(rs, ",") + ")"
}

func recvName(fd *ast.FuncDecl) string {
	if fd.Recv == nil || len(fd.Recv.List) == 0 {
		return ""
	}
	t := fd.Recv.List[0].Type
	for {
		switch x := t.(type) {
		case *ast.StarExpr:
			t = x.X
		case *ast.ParenExpr:
			t = x.X
		case *ast.IndexExpr:
			t = x.X
		case *ast.Ident:
			return x.Name
		default:
			return "?"
		}
	}
}

func funcKey(fd *ast.FuncDecl) string {
	if r := recvName(fd); r != "" {
		return r + "." + fd.Name.Name
	}
	return fd.Name.Name
}

func skipFile(pk *packages.Package, f *ast.File) bool {
	name := pk.Fset.Position(f.Pos()).Filename
	if strings.HasSuffix(name, "_test.go") || strings.HasSuffix(name, ".pb.go") {
		return true
	}
	for _, cg := range f.Comments {
		if cg.Pos() > f.Package {
			break
		}
		for _, c := range cg.List {
			if strings.HasPrefix(c.Text, "// Code generated ") {
				return true
			}
		}
	}
	return false
}

// leafAbstractions are small types whose methods the rules recognise by effect.
var leafAbstractions = map[string]bool{"atomicFlag": true}

// Result of one normalisation round.
type Result struct {
	Overlay map[string][]byte // file name -> new content (only changed files)
	Notes   []string
}

type edit struct {
	start, end int // byte offsets in the file
	text       string
}

type fileEdits struct {
	name  string
	src   []byte
	edits []edit
}

// Normalise computes one round of rewrites for pk. read returns the current
// content of a file (overlay-aware).
func Normalise(pk *packages.Package, base *Baseline, read func(string) ([]byte, error), round int) (*Result, error) {
	n := &normaliser{round: round, pk: pk, base: base, read: read, files: map[string]*fileEdits{}, res: &Result{Overlay: map[string][]byte{}}}
	n.index()
	// one kind of rewrite per round keeps offsets simple: types, then fields and
	// functions, then method/function conversions, then inlining
	if n.typeRenames() {
		return n.finish()
	}
	if n.renames() {
		return n.finish()
	}
	if n.conversions() {
		return n.finish()
	}
	n.inlineAll()
	n.removeDead()
	return n.finish()
}

// removeDead deletes unknown helpers that nothing refers to any more (all
// their calls were inlined in an earlier round), so that rules enumerating
// "every function that does X" do not see the orphaned copy.
func (n *normaliser) removeDead() {
	used := map[types.Object]bool{}
	for _, obj := range n.pk.TypesInfo.Uses {
		used[obj] = true
	}
	for fn := range n.unknown {
		if used[fn] {
			continue
		}
		fd := n.declOf[fn]
		f := n.fileOf[fd]
		fe, err := n.fe(f)
		if err != nil {
			continue
		}
		from := fd.Pos()
		if fd.Doc != nil {
			from = fd.Doc.Pos()
		}
		next := n.pk.Fset.Position(fd.End())
		fe.edits = append(fe.edits, edit{n.off(from), n.off(fd.End()), fmt.Sprintf("\n//line %s:%d\n", next.Filename, next.Line)})
		n.res.Notes = append(n.res.Notes, "removed unreferenced helper "+funcKey(fd))
	}
}

type normaliser struct {
	pk    *packages.Package
	base  *Baseline
	read  func(string) ([]byte, error)
	files map[string]*fileEdits
	res   *Result
	ctr   int
	round int // makes generated names unique across rounds

	decls   map[string]*ast.FuncDecl // key -> decl (current program)
	declOf  map[*types.Func]*ast.FuncDecl
	fileOf  map[*ast.FuncDecl]*ast.File
	unknown map[*types.Func]bool // unexported helpers not in the baseline
	imports map[*ast.File]map[string]string // imports to add: file -> path -> name
}

func (n *normaliser) index() {
	n.decls = map[string]*ast.FuncDecl{}
	n.declOf = map[*types.Func]*ast.FuncDecl{}
	n.fileOf = map[*ast.FuncDecl]*ast.File{}
	n.unknown = map[*types.Func]bool{}
	for _, f := range n.pk.Syntax {
		if skipFile(n.pk, f) {
			continue
		}
		for _, d := range f.Decls {
			fd, ok := d.(*ast.FuncDecl)
			if !ok || fd.Body == nil {
				continue
			}
			obj, _ := n.pk.TypesInfo.Defs[fd.Name].(*types.Func)
			if obj == nil {
				continue
			}
			n.decls[funcKey(fd)] = fd
			n.declOf[obj] = fd
			n.fileOf[fd] = f
			if leafAbstractions[recvName(fd)] {
				continue // rules classify these methods by what they do (rules.flagOp); inlining would dissolve them
			}
			if _, known := n.base.Funcs[funcKey(fd)]; !known && !fd.Name.IsExported() && fd.Name.Name != "init" && fd.Name.Name != "_" {
				n.unknown[obj] = true
			}
		}
	}
}

func (n *normaliser) fe(f *ast.File) (*fileEdits, error) {
	name := n.pk.Fset.Position(f.Pos()).Filename
	if fe, ok := n.files[name]; ok {
		return fe, nil
	}
	src, err := n.read(name)
	if err != nil {
		return nil, err
	}
	fe := &fileEdits{name: name, src: src}
	n.files[name] = fe
	return fe, nil
}

func (n *normaliser) off(p token.Pos) int { return n.pk.Fset.Position(p).Offset }

func (n *normaliser) text(f *ast.File, from, to token.Pos) string {
	fe, err := n.fe(f)
	if err != nil {
		return ""
	}
	return string(fe.src[n.off(from):n.off(to)])
}

func (n *normaliser) finish() (*Result, error) {
	for f, m := range n.imports {
		fe, err := n.fe(f)
		if err != nil || len(fe.edits) == 0 {
			continue
		}
		var paths []string
		for p := range m {
			paths = append(paths, p)
		}
		sort.Strings(paths)
		var sb bytes.Buffer
		for _, p := range paths {
			fmt.Fprintf(&sb, "; import %s %q", m[p], p)
		}
		at := n.off(f.Name.End())
		fe.edits = append(fe.edits, edit{at, at, sb.String()})
	}
	for name, fe := range n.files {
		if len(fe.edits) == 0 {
			continue
		}
		sort.Slice(fe.edits, func(i, j int) bool { return fe.edits[i].start < fe.edits[j].start })
		var out bytes.Buffer
		pos := 0
		for _, e := range fe.edits {
			if e.start < pos {
				continue // overlapping edit: left for the next round
			}
			out.Write(fe.src[pos:e.start])
			out.WriteString(e.text)
			pos = e.end
		}
		out.Write(fe.src[pos:])
		n.res.Overlay[name] = out.Bytes()
	}
	sort.Strings(n.res.Notes)
	return n.res, nil
}

func (n *normaliser) fresh(prefix string) string {
	n.ctr++
	return fmt.Sprintf("__%s%d_%d", prefix, n.round, n.ctr)
}
