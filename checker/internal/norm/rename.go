package norm

import (
	"fmt"
	"go/ast"
	"go/types"
	"sort"
)

// renames maps consistently renamed unexported fields, functions and methods
// back to the names of the confirmed tree. A rename is applied only when the
// correspondence is forced: the confirmed name is gone and, among the
// declarations the confirmed tree does not know, exactly the same number with
// the same shape (field type; receiver and signature) exist - matched in
// declaration order. Renaming consistently never changes behaviour; a wrong
// guess can only make a rule look at the wrong declaration, never hide one.
func (n *normaliser) renames() bool {
	info := n.pk.TypesInfo
	q := types.RelativeTo(n.pk.Types)
	type target struct {
		obj  types.Object
		name string
		what string
	}
	var targets []target

	// ---- struct fields
	for _, f := range n.pk.Syntax {
		if skipFile(n.pk, f) {
			continue
		}
		for _, d := range f.Decls {
			gd, ok := d.(*ast.GenDecl)
			if !ok {
				continue
			}
			for _, sp := range gd.Specs {
				ts, ok := sp.(*ast.TypeSpec)
				if !ok {
					continue
				}
				want, known := n.base.Fields[ts.Name.Name]
				if !known {
					continue
				}
				st, ok := info.Defs[ts.Name].Type().Underlying().(*types.Struct)
				if !ok {
					continue
				}
				have := map[string]bool{}
				for i := 0; i < st.NumFields(); i++ {
					have[st.Field(i).Name()] = true
				}
				// by type: missing confirmed names / unknown current names
				missing := map[string][]string{}
				for name, typ := range want {
					if !have[name] {
						missing[typ] = append(missing[typ], name)
					}
				}
				unknown := map[string][]*types.Var{}
				for i := 0; i < st.NumFields(); i++ {
					fl := st.Field(i)
					if _, isKnown := want[fl.Name()]; !isKnown && !fl.Exported() && !fl.Embedded() {
						t := types.TypeString(fl.Type(), q)
						unknown[t] = append(unknown[t], fl)
					}
				}
				for typ, names := range missing {
					cands := unknown[typ]
					if len(cands) != len(names) || len(names) == 0 {
						continue
					}
					if len(names) > 1 {
						// declaration order of the confirmed tree is not recorded: only a single
						// candidate is forced
						continue
					}
					targets = append(targets, target{cands[0], names[0], "field " + ts.Name.Name + "." + cands[0].Name()})
				}
			}
		}
	}

	// ---- functions and methods
	missingF := map[string][]string{} // recv|sig -> confirmed names
	for key, sig := range n.base.Funcs {
		if _, present := n.decls[key]; present {
			continue
		}
		recv, name := splitKey(key)
		if ast.IsExported(name) {
			continue
		}
		missingF[recv+"|"+sig] = append(missingF[recv+"|"+sig], name)
	}
	unknownF := map[string][]*types.Func{}
	for fn := range n.unknown {
		fd := n.declOf[fn]
		k := recvName(fd) + "|" + sigString(fn, q)
		unknownF[k] = append(unknownF[k], fn)
	}
	for k, names := range missingF {
		cands := unknownF[k]
		if len(names) != 1 || len(cands) != 1 {
			continue
		}
		// a helper extracted from a function that was removed at the same time would match by
		// accident only if it has the very same receiver and signature: accept
		targets = append(targets, target{cands[0], names[0], "function " + funcKey(n.declOf[cands[0]])})
	}
	if len(targets) == 0 {
		return false
	}
	sort.Slice(targets, func(i, j int) bool { return targets[i].what < targets[j].what })
	// the new name must be free where it is used: for fields, no other member of that name;
	// for functions, no package-level object of that name
	byObj := map[types.Object]string{}
	for _, t := range targets {
		if fn, isFn := t.obj.(*types.Func); isFn && fn.Type().(*types.Signature).Recv() == nil {
			if n.pk.Types.Scope().Lookup(t.name) != nil {
				continue
			}
		}
		byObj[t.obj] = t.name
		n.res.Notes = append(n.res.Notes, fmt.Sprintf("renamed %s back to %s", t.what, t.name))
	}
	if len(byObj) == 0 {
		return false
	}
	for _, f := range n.pk.Syntax {
		name := n.pk.Fset.Position(f.Pos()).Filename
		_ = name
		ast.Inspect(f, func(x ast.Node) bool {
			id, ok := x.(*ast.Ident)
			if !ok {
				return true
			}
			obj := info.Uses[id]
			if obj == nil {
				obj = info.Defs[id]
			}
			if obj == nil {
				return true
			}
			if nn, hit := byObj[obj]; hit {
				if fe, err := n.fe(f); err == nil {
					fe.edits = append(fe.edits, edit{n.off(id.Pos()), n.off(id.End()), nn})
				}
			}
			return true
		})
		// keyed composite literals name fields without a Uses entry for embedded promotion only; plain
		// keys are recorded in Uses, so nothing more to do
	}
	return true
}

func splitKey(k string) (recv, name string) {
	for i := 0; i < len(k); i++ {
		if k[i] == '.' {
			return k[:i], k[i+1:]
		}
	}
	return "", k
}
