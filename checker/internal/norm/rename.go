package norm

import (
	"fmt"
	"go/ast"
	"go/token"
	"go/types"
	"sort"
	"strings"
)

// renames maps consistently renamed unexported fields, functions and methods
// back to the names of the confirmed tree. A rename is applied only when the
// correspondence is forced: the confirmed name is gone and, among the
// declarations the confirmed tree does not know, exactly the same number with
// the same shape (field type; receiver and signature) exist - matched in
// declaration order. Renaming consistently never changes behaviour; a wrong
// guess can only make a rule look at the wrong declaration, never hide one.
func (n *normaliser) renames() bool {
	info := n.pk.TypesInfo
	q := types.RelativeTo(n.pk.Types)
	type target struct {
		obj  types.Object
		name string
		what string
	}
	var targets []target

	// ---- struct fields
	for _, f := range n.pk.Syntax {
		if skipFile(n.pk, f) {
			continue
		}
		for _, d := range f.Decls {
			gd, ok := d.(*ast.GenDecl)
			if !ok {
				continue
			}
			for _, sp := range gd.Specs {
				ts, ok := sp.(*ast.TypeSpec)
				if !ok {
					continue
				}
				want, known := n.base.Fields[ts.Name.Name]
				if !known {
					continue
				}
				st, ok := info.Defs[ts.Name].Type().Underlying().(*types.Struct)
				if !ok {
					continue
				}
				have := map[string]bool{}
				for i := 0; i < st.NumFields(); i++ {
					have[st.Field(i).Name()] = true
				}
				// by type: missing confirmed names / unknown current names
				missing := map[string][]string{}
				for name, typ := range want {
					if !have[name] {
						missing[typ] = append(missing[typ], name)
					}
				}
				unknown := map[string][]*types.Var{}
				for i := 0; i < st.NumFields(); i++ {
					fl := st.Field(i)
					if _, isKnown := want[fl.Name()]; !isKnown && !fl.Exported() && !fl.Embedded() {
						t := types.TypeString(fl.Type(), q)
						unknown[t] = append(unknown[t], fl)
					}
				}
				for typ, names := range missing {
					cands := unknown[typ]
					if len(cands) != len(names) || len(names) == 0 {
						continue
					}
					if len(names) > 1 {
						// declaration order of the confirmed tree is not recorded: only a single
						// candidate is forced
						continue
					}
					targets = append(targets, target{cands[0], names[0], "field " + ts.Name.Name + "." + cands[0].Name()})
				}
			}
		}
	}

	// ---- functions and methods
	missingF := map[string][]string{} // recv|sig -> confirmed names
	for key, sig := range n.base.Funcs {
		if _, present := n.decls[key]; present {
			continue
		}
		recv, name := splitKey(key)
		if ast.IsExported(name) {
			continue
		}
		missingF[recv+"|"+sig] = append(missingF[recv+"|"+sig], name)
	}
	unknownF := map[string][]*types.Func{}
	for fn := range n.unknown {
		fd := n.declOf[fn]
		k := recvName(fd) + "|" + sigString(fn, q)
		unknownF[k] = append(unknownF[k], fn)
	}
	for k, names := range missingF {
		cands := unknownF[k]
		if len(names) == 1 && len(cands) == 1 {
			// a helper extracted from a function that was removed at the same time would match by
			// accident only if it has the very same receiver and signature: accept
			targets = append(targets, target{cands[0], names[0], "function " + funcKey(n.declOf[cands[0]])})
			continue
		}
		if len(names) == 0 || len(cands) < len(names) {
			continue
		}
		// several same-shaped functions renamed at once (sender/receiver): tell them apart by what
		// their bodies mention; accept only clear, mutually best matches
		recv, _ := splitKey(k[:strings.Index(k, "|")] + ".x")
		sort.Strings(names)
		sort.Slice(cands, func(i, j int) bool { return cands[i].Name() < cands[j].Name() })
		used := map[*types.Func]bool{}
		for _, name := range names {
			key := name
			if recv != "" {
				key = recv + "." + name
			}
			want := n.base.Prints[key]
			best, second := -1.0, -1.0
			var bestC *types.Func
			for _, c := range cands {
				sc := jaccard(want, fingerprint(n.declOf[c]))
				if sc > best {
					second, best, bestC = best, sc, c
				} else if sc > second {
					second = sc
				}
			}
			if bestC != nil && !used[bestC] && best >= 0.4 && best-second >= 0.15 {
				used[bestC] = true
				targets = append(targets, target{bestC, name, "function " + funcKey(n.declOf[bestC])})
			}
		}
	}
	if len(targets) == 0 {
		return false
	}
	sort.Slice(targets, func(i, j int) bool { return targets[i].what < targets[j].what })
	// the new name must be free where it is used: for fields, no other member of that name;
	// for functions, no package-level object of that name
	byObj := map[types.Object]string{}
	for _, t := range targets {
		if fn, isFn := t.obj.(*types.Func); isFn && fn.Type().(*types.Signature).Recv() == nil {
			if n.pk.Types.Scope().Lookup(t.name) != nil {
				continue
			}
		}
		byObj[t.obj] = t.name
		n.res.Notes = append(n.res.Notes, fmt.Sprintf("renamed %s back to %s", t.what, t.name))
	}
	if len(byObj) == 0 {
		return false
	}
	for _, f := range n.pk.Syntax {
		name := n.pk.Fset.Position(f.Pos()).Filename
		_ = name
		ast.Inspect(f, func(x ast.Node) bool {
			id, ok := x.(*ast.Ident)
			if !ok {
				return true
			}
			obj := info.Uses[id]
			if obj == nil {
				obj = info.Defs[id]
			}
			if obj == nil {
				return true
			}
			if nn, hit := byObj[obj]; hit {
				if fe, err := n.fe(f); err == nil {
					fe.edits = append(fe.edits, edit{n.off(id.Pos()), n.off(id.End()), nn})
				}
			}
			return true
		})
		// keyed composite literals name fields without a Uses entry for embedded promotion only; plain
		// keys are recorded in Uses, so nothing more to do
	}
	return true
}

func splitKey(k string) (recv, name string) {
	for i := 0; i < len(k); i++ {
		if k[i] == '.' {
			return k[:i], k[i+1:]
		}
	}
	return "", k
}

// typeRenames maps a renamed struct type back: the confirmed name is gone and
// exactly one struct the baseline does not know has the same field names.
func (n *normaliser) typeRenames() bool {
	info := n.pk.TypesInfo
	have := map[string]*types.TypeName{}
	for _, f := range n.pk.Syntax {
		if skipFile(n.pk, f) {
			continue
		}
		for _, d := range f.Decls {
			gd, ok := d.(*ast.GenDecl)
			if !ok || gd.Tok != token.TYPE {
				continue
			}
			for _, sp := range gd.Specs {
				ts := sp.(*ast.TypeSpec)
				if tn, ok := info.Defs[ts.Name].(*types.TypeName); ok {
					if _, isStruct := tn.Type().Underlying().(*types.Struct); isStruct {
						have[ts.Name.Name] = tn
					}
				}
			}
		}
	}
	fieldSet := func(m map[string]string) string {
		var ks []string
		for k := range m {
			ks = append(ks, k)
		}
		sort.Strings(ks)
		return strings.Join(ks, ",")
	}
	missing := map[string][]string{} // field-name set -> confirmed struct names that are gone
	for name, fields := range n.base.Fields {
		if _, ok := have[name]; !ok && !ast.IsExported(name) {
			missing[fieldSet(fields)] = append(missing[fieldSet(fields)], name)
		}
	}
	unknown := map[string][]*types.TypeName{}
	for name, tn := range have {
		if _, known := n.base.Fields[name]; known || tn.Exported() {
			continue
		}
		st := tn.Type().Underlying().(*types.Struct)
		m := map[string]string{}
		for i := 0; i < st.NumFields(); i++ {
			m[st.Field(i).Name()] = ""
		}
		unknown[fieldSet(m)] = append(unknown[fieldSet(m)], tn)
	}
	byObj := map[types.Object]string{}
	for fs, names := range missing {
		if c := unknown[fs]; len(names) == 1 && len(c) == 1 && fs != "" && n.pk.Types.Scope().Lookup(names[0]) == nil {
			byObj[c[0]] = names[0]
			n.res.Notes = append(n.res.Notes, fmt.Sprintf("renamed type %s back to %s", c[0].Name(), names[0]))
		}
	}
	if len(byObj) == 0 {
		return false
	}
	n.renameIdents(byObj)
	return true
}

func (n *normaliser) renameIdents(byObj map[types.Object]string) {
	info := n.pk.TypesInfo
	for _, f := range n.pk.Syntax {
		ast.Inspect(f, func(x ast.Node) bool {
			id, ok := x.(*ast.Ident)
			if !ok {
				return true
			}
			obj := info.Uses[id]
			if obj == nil {
				obj = info.Defs[id]
			}
			if nn, hit := byObj[obj]; hit && obj != nil {
				if fe, err := n.fe(f); err == nil {
					fe.edits = append(fe.edits, edit{n.off(id.Pos()), n.off(id.End()), nn})
				}
			}
			return true
		})
	}
}

// conversions turns a method that the confirmed tree has as a plain function
// of the former receiver (or the reverse) back into that form, declaration
// and calls. Only when every reference to it is a direct call.
func (n *normaliser) conversions() bool {
	info := n.pk.TypesInfo
	q := types.RelativeTo(n.pk.Types)
	did := false
	for fn := range n.unknown {
		fd := n.declOf[fn]
		f := n.fileOf[fd]
		sig := fn.Type().(*types.Signature)
		// every use must be the callee of a call
		var calls []*ast.CallExpr
		var callFile []*ast.File
		okUses := true
		for _, file := range n.pk.Syntax {
			ast.Inspect(file, func(x ast.Node) bool {
				ce, ok := x.(*ast.CallExpr)
				if !ok {
					return true
				}
				switch fun := ast.Unparen(ce.Fun).(type) {
				case *ast.Ident:
					if info.Uses[fun] == types.Object(fn) {
						calls = append(calls, ce)
						callFile = append(callFile, file)
					}
				case *ast.SelectorExpr:
					if info.Uses[fun.Sel] == types.Object(fn) {
						if sel := info.Selections[fun]; sel == nil || sel.Kind() != types.MethodVal || len(sel.Index()) != 1 {
							okUses = false
						}
						calls = append(calls, ce)
						callFile = append(callFile, file)
					}
				}
				return true
			})
		}
		nUses := 0
		for id, obj := range info.Uses {
			_ = id
			if obj == types.Object(fn) {
				nUses++
			}
		}
		if !okUses || nUses != len(calls) {
			continue
		}
		var ps, rs []string
		for i := 0; i < sig.Params().Len(); i++ {
			ps = append(ps, types.TypeString(sig.Params().At(i).Type(), q))
		}
		for i := 0; i < sig.Results().Len(); i++ {
			rs = append(rs, types.TypeString(sig.Results().At(i).Type(), q))
		}
		if sig.Variadic() {
			continue
		}
		res := "(" + strings.Join(rs, ",") + ")"
		if sig.Recv() == nil && len(ps) >= 1 {
			// plain function now; a method of one of its parameters' type on the confirmed tree?
			converted := false
			for pi := 0; pi < len(ps) && !converted; pi++ {
				recvT := strings.TrimPrefix(ps[pi], "*")
				key := recvT + "." + fd.Name.Name
				want, ok := n.base.Funcs[key]
				rest := append(append([]string{}, ps[:pi]...), ps[pi+1:]...)
				if !ok || n.decls[key] != nil || want != "("+strings.Join(rest, ",")+")"+res {
					continue
				}
				// the parameter must be declared on its own: find its field
				var fld *ast.Field
				idx := 0
				for _, fl := range fd.Type.Params.List {
					cnt := len(fl.Names)
					if cnt == 0 {
						cnt = 1
					}
					if idx == pi && cnt == 1 && len(fl.Names) == 1 {
						fld = fl
					}
					idx += cnt
				}
				if fld == nil {
					continue
				}
				fe, err := n.fe(f)
				if err != nil {
					continue
				}
				// remove the parameter (with one adjacent comma) and add the receiver
				src := fe.src
				a, b := n.off(fld.Pos()), n.off(fld.End())
				if pi < len(ps)-1 {
					for b < len(src) && src[b] != ',' {
						b++
					}
					b++
					for b < len(src) && (src[b] == ' ' || src[b] == '\n' || src[b] == '\t') {
						b++
					}
				} else if pi > 0 {
					for a > 0 && src[a-1] != ',' {
						a--
					}
					a--
				}
				fe.edits = append(fe.edits, edit{a, b, ""})
				fe.edits = append(fe.edits, edit{n.off(fd.Name.Pos()), n.off(fd.Name.Pos()), "(" + n.text(f, fld.Pos(), fld.End()) + ") "})
				for i, ce := range calls {
					cf := callFile[i]
					cfe, err := n.fe(cf)
					if err != nil || len(ce.Args) != len(ps) {
						continue
					}
					arg := ce.Args[pi]
					a, b := n.off(arg.Pos()), n.off(arg.End())
					src := cfe.src
					if pi < len(ps)-1 {
						b = n.off(ce.Args[pi+1].Pos())
					} else if pi > 0 {
						a = n.off(ce.Args[pi-1].End())
					}
					_ = src
					cfe.edits = append(cfe.edits, edit{a, b, ""})
					cfe.edits = append(cfe.edits, edit{n.off(ce.Fun.Pos()), n.off(ce.Fun.Pos()), "(" + n.text(cf, arg.Pos(), arg.End()) + ")."})
				}
				n.res.Notes = append(n.res.Notes, fmt.Sprintf("turned function %s back into method %s", fd.Name.Name, key))
				did, converted = true, true
			}
			if converted {
				continue
			}
		}
		if sig.Recv() != nil {
			// method now; a plain function taking the receiver first on the confirmed tree?
			rt := types.TypeString(sig.Recv().Type(), q)
			want, ok := n.base.Funcs[fd.Name.Name]
			if ok && n.decls[fd.Name.Name] == nil && want == "("+strings.Join(append([]string{rt}, ps...), ",")+")"+res && n.pk.Types.Scope().Lookup(fd.Name.Name) == nil {
				if len(fd.Recv.List) != 1 || len(fd.Recv.List[0].Names) != 1 {
					continue
				}
				fe, err := n.fe(f)
				if err != nil {
					continue
				}
				recvText := n.text(f, fd.Recv.List[0].Pos(), fd.Recv.List[0].End())
				sep := ""
				if len(ps) > 0 {
					sep = ", "
				}
				fe.edits = append(fe.edits, edit{n.off(fd.Recv.Pos()), n.off(fd.Type.Params.Opening) + 1, fd.Name.Name + "(" + recvText + sep})
				_, rp := sig.Recv().Type().(*types.Pointer)
				for i, ce := range calls {
					cf := callFile[i]
					cfe, err := n.fe(cf)
					se, isSel := ast.Unparen(ce.Fun).(*ast.SelectorExpr)
					if err != nil || !isSel {
						continue
					}
					x := n.text(cf, se.X.Pos(), se.X.End())
					_, xp := info.TypeOf(se.X).Underlying().(*types.Pointer)
					switch {
					case rp && !xp:
						x = "&(" + x + ")"
					case !rp && xp:
						x = "*(" + x + ")"
					}
					sep := ""
					if len(ce.Args) > 0 {
						sep = ", "
					}
					cfe.edits = append(cfe.edits, edit{n.off(ce.Fun.Pos()), n.off(ce.Lparen) + 1, fd.Name.Name + "(" + x + sep})
				}
				n.res.Notes = append(n.res.Notes, fmt.Sprintf("turned method %s back into function %s", funcKey(fd), fd.Name.Name))
				did = true
				continue
			}
		}
		if sig.Recv() == nil {
			// receiver dropped because it was unused: restore it as a blank receiver
			for key, want := range n.base.Funcs {
				recv, name := splitKey(key)
				if recv == "" || name != fd.Name.Name || n.decls[key] != nil || want != "("+strings.Join(ps, ",")+")"+res {
					continue
				}
				tn, _ := n.pk.Types.Scope().Lookup(recv).(*types.TypeName)
				if tn == nil {
					continue
				}
				zero := ""
				switch tn.Type().Underlying().(type) {
				case *types.Slice, *types.Map, *types.Chan, *types.Signature, *types.Interface:
					zero = recv + "(nil)"
				case *types.Struct:
					zero = recv + "{}"
				default:
					continue
				}
				fe, err := n.fe(f)
				if err != nil {
					continue
				}
				fe.edits = append(fe.edits, edit{n.off(fd.Name.Pos()), n.off(fd.Name.Pos()), "(_ " + recv + ") "})
				for i, ce := range calls {
					cfe, err := n.fe(callFile[i])
					if err != nil {
						continue
					}
					cfe.edits = append(cfe.edits, edit{n.off(ce.Fun.Pos()), n.off(ce.Fun.Pos()), zero + "."})
				}
				n.res.Notes = append(n.res.Notes, fmt.Sprintf("restored the dropped (unused) receiver of %s", key))
				did = true
				break
			}
		}
	}
	return did
}
