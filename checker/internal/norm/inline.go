package norm

import (
	"fmt"
	"go/ast"
	"go/token"
	"go/types"
	"strings"
)

// callee returns the unknown helper a call statically invokes, with the
// receiver expression text-ready pieces, or nil.
type site struct {
	call   *ast.CallExpr
	fn     *types.Func
	decl   *ast.FuncDecl
	recvX  ast.Expr // receiver expression (nil for plain functions)
	recvOp string   // "", "&", "*"
}

func (n *normaliser) siteOf(c *ast.CallExpr) *site {
	info := n.pk.TypesInfo
	var fn *types.Func
	s := &site{call: c}
	switch f := ast.Unparen(c.Fun).(type) {
	case *ast.Ident:
		fn, _ = info.Uses[f].(*types.Func)
	case *ast.SelectorExpr:
		sel := info.Selections[f]
		if sel == nil || sel.Kind() != types.MethodVal || len(sel.Index()) != 1 {
			return nil
		}
		fn, _ = sel.Obj().(*types.Func)
		s.recvX = f.X
	}
	if fn == nil || !n.unknown[fn] {
		return nil
	}
	decl := n.declOf[fn]
	if decl == nil || !n.inlinable(decl) {
		return nil
	}
	sig := fn.Type().(*types.Signature)
	if sig.Variadic() || c.Ellipsis.IsValid() || len(c.Args) != sig.Params().Len() {
		return nil
	}
	if s.recvX != nil {
		rt := sig.Recv().Type()
		xt := info.TypeOf(s.recvX)
		_, rp := rt.(*types.Pointer)
		_, xp := xt.Underlying().(*types.Pointer)
		if _, isNamedPtr := xt.(*types.Pointer); isNamedPtr {
			xp = true
		}
		switch {
		case rp && !xp:
			s.recvOp = "&"
		case !rp && xp:
			s.recvOp = "*"
		}
	} else if sig.Recv() != nil {
		return nil // method expression T.m(x, ...)
	}
	s.fn, s.decl = fn, decl
	return s
}

// inlinable checks the callee-side restrictions.
func (n *normaliser) inlinable(fd *ast.FuncDecl) bool {
	if fd.Body == nil || fd.Type.TypeParams != nil {
		return false
	}
	if fd.Recv != nil && len(fd.Recv.List) == 1 {
		if _, isIdx := fd.Recv.List[0].Type.(*ast.IndexExpr); isIdx {
			return false
		}
	}
	self, _ := n.pk.TypesInfo.Defs[fd.Name].(*types.Func)
	ok := true
	depth := 0
	var walk func(nd ast.Node, top bool)
	walk = func(nd ast.Node, top bool) {
		ast.Inspect(nd, func(x ast.Node) bool {
			switch y := x.(type) {
			case *ast.FuncLit:
				// a closure may do what it likes, except refer to the helper itself
				ast.Inspect(y, func(z ast.Node) bool {
					if id, isID := z.(*ast.Ident); isID && n.pk.TypesInfo.Uses[id] == types.Object(self) {
						ok = false
					}
					return true
				})
				return false
			case *ast.LabeledStmt, *ast.BranchStmt:
				if b, isB := y.(*ast.BranchStmt); isB && b.Label == nil && b.Tok != token.GOTO {
					return true
				}
				ok = false
			case *ast.DeferStmt:
				if !n.topLevel(fd, y) || !pureCall(y.Call) {
					ok = false
				}
			case *ast.Ident:
				if n.pk.TypesInfo.Uses[y] == types.Object(self) {
					ok = false // recursive
				}
				if y.Name == "recover" {
					if _, isB := n.pk.TypesInfo.Uses[y].(*types.Builtin); isB {
						ok = false
					}
				}
			}
			return ok
		})
	}
	_ = depth
	walk(fd.Body, true)
	return ok
}

func (n *normaliser) topLevel(fd *ast.FuncDecl, s ast.Stmt) bool {
	for _, t := range fd.Body.List {
		if t == s {
			return true
		}
	}
	return false
}

// pureCall: evaluating the function value and the arguments has no effect and
// does not depend on when it happens within the helper (identifiers, field
// selections, literals).
func pureCall(c *ast.CallExpr) bool {
	var pure func(e ast.Expr) bool
	pure = func(e ast.Expr) bool {
		switch x := e.(type) {
		case *ast.Ident, *ast.BasicLit:
			return true
		case *ast.SelectorExpr:
			return pure(x.X)
		case *ast.ParenExpr:
			return pure(x.X)
		case *ast.StarExpr:
			return pure(x.X)
		case *ast.UnaryExpr:
			return x.Op == token.AND && pure(x.X)
		}
		return false
	}
	if !pure(c.Fun) {
		return false
	}
	for _, a := range c.Args {
		if !pure(a) {
			return false
		}
	}
	return true
}

// qualifier renders types as the caller's file spells them; ok=false when a
// package is not imported there.
func (n *normaliser) qualifier(f *ast.File, ok *bool) types.Qualifier {
	imp := map[string]string{}
	for _, is := range f.Imports {
		path := strings.Trim(is.Path.Value, `"`)
		name := ""
		if is.Name != nil {
			name = is.Name.Name
		} else if p := n.pk.Imports[path]; p != nil {
			name = p.Name
		}
		imp[path] = name
	}
	return func(p *types.Package) string {
		if p == n.pk.Types {
			return ""
		}
		name, found := imp[p.Path()]
		if found && (name == "_" || name == "." || name == "") {
			*ok = false
			return p.Name()
		}
		if !found {
			if !n.wantImport(f, p.Path(), p.Name()) {
				*ok = false
			}
			return p.Name()
		}
		return name
	}
}

// wantImport arranges for the file to import path under name (an extra import
// declaration after the package clause) unless the name is taken.
func (n *normaliser) wantImport(f *ast.File, path, name string) bool {
	for _, is := range f.Imports {
		nm := ""
		if is.Name != nil {
			nm = is.Name.Name
		} else if p := n.pk.Imports[strings.Trim(is.Path.Value, `"`)]; p != nil {
			nm = p.Name
		}
		if nm == name {
			return strings.Trim(is.Path.Value, `"`) == path
		}
	}
	if n.pk.Types.Scope().Lookup(name) != nil {
		return false
	}
	if n.imports == nil {
		n.imports = map[*ast.File]map[string]string{}
	}
	if n.imports[f] == nil {
		n.imports[f] = map[string]string{}
	}
	n.imports[f][path] = name
	return true
}

// hygienic: every free name of the helper's body means the same thing at the
// call site.
func (n *normaliser) hygienic(s *site, callerFile *ast.File, at token.Pos) bool {
	info := n.pk.TypesInfo
	inner := n.pk.Types.Scope().Innermost(at)
	if inner == nil {
		return false
	}
	calleeFile := n.fileOf[s.decl]
	good := true
	check := func(nd ast.Node) {
		ast.Inspect(nd, func(x ast.Node) bool {
			id, isID := x.(*ast.Ident)
			if !isID || !good {
				return good
			}
			obj := info.Uses[id]
			if obj == nil {
				return true
			}
			switch o := obj.(type) {
			case *types.PkgName:
				if calleeFile == callerFile {
					break
				}
				found, samePath := false, false
				for _, is := range callerFile.Imports {
					if strings.Trim(is.Path.Value, `"`) == o.Imported().Path() {
						samePath = true
						nm := o.Imported().Name()
						if is.Name != nil {
							nm = is.Name.Name
						}
						if nm == id.Name {
							found = true
						}
					}
				}
				if !found && (samePath || !n.wantImport(callerFile, o.Imported().Path(), id.Name)) {
					good = false
				}
				return true
			}
			// package-level or universe object: must not be shadowed at the call site
			if obj.Parent() == n.pk.Types.Scope() || obj.Parent() == types.Universe {
				if _, o2 := inner.LookupParent(id.Name, at); o2 != obj {
					good = false
				}
			}
			return true
		})
	}
	check(s.decl.Body)
	// PkgName uses are file-scoped: LookupParent from the package scope does not see them,
	// and a caller-local variable named like an imported package would shadow it
	if good {
		ast.Inspect(s.decl.Body, func(x ast.Node) bool {
			if id, isID := x.(*ast.Ident); isID {
				if pn, isPkg := info.Uses[id].(*types.PkgName); isPkg {
					if _, o2 := inner.LookupParent(id.Name, at); o2 != nil {
						if p2, isP2 := o2.(*types.PkgName); !isP2 || p2.Imported() != pn.Imported() {
							good = false
						}
					}
				}
			}
			return good
		})
	}
	return good
}

// expansion is the text that replaces one call.
type expansion struct {
	prelude string   // statements to run before the statement that held the call
	results []string // names of the variables holding the results afterwards
}

func (n *normaliser) expand(s *site, callerFile *ast.File) (*expansion, bool) {
	if !n.hygienic(s, callerFile, s.call.Pos()) {
		return nil, false
	}
	qok := true
	q := n.qualifier(callerFile, &qok)
	calleeFile := n.fileOf[s.decl]
	sig := s.fn.Type().(*types.Signature)
	var b strings.Builder

	// 1. receiver and arguments, evaluated in the caller's scope, in order
	var tmpNames, tmpVals, parNames []string
	if s.recvX != nil {
		name := "_"
		if len(s.decl.Recv.List[0].Names) == 1 && s.decl.Recv.List[0].Names[0].Name != "_" {
			name = s.decl.Recv.List[0].Names[0].Name
		}
		x := n.text(callerFile, s.recvX.Pos(), s.recvX.End())
		if s.recvOp != "" {
			x = s.recvOp + "(" + x + ")"
		}
		tmpNames = append(tmpNames, n.fresh("a"))
		tmpVals = append(tmpVals, "("+types.TypeString(sig.Recv().Type(), q)+")("+x+")")
		parNames = append(parNames, name)
	}
	i := 0
	for _, fl := range s.decl.Type.Params.List {
		names := fl.Names
		if len(names) == 0 {
			names = []*ast.Ident{{Name: "_"}}
		}
		for _, nm := range names {
			a := s.call.Args[i]
			tmpNames = append(tmpNames, n.fresh("a"))
			tmpVals = append(tmpVals, "("+types.TypeString(sig.Params().At(i).Type(), q)+")("+n.text(callerFile, a.Pos(), a.End())+")")
			parNames = append(parNames, nm.Name)
			i++
		}
	}
	if len(tmpNames) > 0 {
		fmt.Fprintf(&b, "var %s = %s\n", strings.Join(tmpNames, ", "), strings.Join(tmpVals, ", "))
	}
	// 2. result variables
	ex := &expansion{}
	for j := 0; j < sig.Results().Len(); j++ {
		r := n.fresh("r")
		ex.results = append(ex.results, r)
		fmt.Fprintf(&b, "var %s %s\n", r, types.TypeString(sig.Results().At(j).Type(), q))
	}
	if !qok {
		return nil, false
	}
	// 3. the body
	b.WriteString("{\n")
	var live []string
	for k, p := range parNames {
		if p == "_" {
			fmt.Fprintf(&b, "_ = %s\n", tmpNames[k])
			continue
		}
		fmt.Fprintf(&b, "var %s = %s\n", p, tmpNames[k])
		live = append(live, p)
	}
	if len(live) > 0 {
		// parallel declaration would be needed if a parameter were named like a temporary; temporaries are fresh
		fmt.Fprintf(&b, "%s = %s\n", strings.Repeat("_, ", len(live)-1)+"_", strings.Join(live, ", "))
	}
	var named []string
	if s.decl.Type.Results != nil {
		j := 0
		for _, fl := range s.decl.Type.Results.List {
			for _, nm := range fl.Names {
				if nm.Name != "_" {
					fmt.Fprintf(&b, "var %s %s\n_ = %s\n", nm.Name, types.TypeString(sig.Results().At(j).Type(), q), nm.Name)
				}
				named = append(named, nm.Name)
				j++
			}
		}
	}
	label := n.fresh("L")
	body, usedLabel, ok := n.rewriteBody(s, calleeFile, ex.results, named, label)
	if !ok {
		return nil, false
	}
	if usedLabel {
		fmt.Fprintf(&b, "%s:\nfor {\n%s\nbreak %s\n}\n", label, body, label)
	} else {
		b.WriteString(body)
		b.WriteString("\n")
	}
	b.WriteString("}\n")
	ex.prelude = b.String()
	return ex, true
}

// rewriteBody returns the helper's body text with returns turned into
// assignments to the result variables (and a break out of the wrapper loop
// unless the return is the body's last statement) and top-level defers turned
// into calls at every later exit.
func (n *normaliser) rewriteBody(s *site, f *ast.File, results, named []string, label string) (string, bool, bool) {
	fe, err := n.fe(f)
	if err != nil {
		return "", false, false
	}
	body := s.decl.Body
	type rep struct {
		from, to int
		text     string
	}
	var reps []rep
	usedLabel := false
	var defers []*ast.DeferStmt
	for _, st := range body.List {
		if d, ok := st.(*ast.DeferStmt); ok {
			defers = append(defers, d)
		}
	}
	deferredAt := func(p token.Pos) string {
		var sb strings.Builder
		for k := len(defers) - 1; k >= 0; k-- {
			if defers[k].End() <= p {
				sb.WriteString(string(fe.src[n.off(defers[k].Call.Pos()):n.off(defers[k].Call.End())]))
				sb.WriteString("\n")
			}
		}
		return sb.String()
	}
	var last ast.Stmt
	if len(body.List) > 0 {
		last = body.List[len(body.List)-1]
	}
	okAll := true
	ast.Inspect(body, func(x ast.Node) bool {
		switch y := x.(type) {
		case *ast.FuncLit:
			return false
		case *ast.DeferStmt:
			reps = append(reps, rep{n.off(y.Pos()), n.off(y.End()), "/* deferred: runs at every exit below */"})
			return false
		case *ast.ReturnStmt:
			var sb strings.Builder
			sb.WriteString("{\n")
			switch {
			case len(y.Results) == 0 && len(results) > 0:
				if len(named) != len(results) {
					okAll = false
					return false
				}
				fmt.Fprintf(&sb, "%s = %s\n", strings.Join(results, ", "), strings.Join(named, ", "))
			case len(y.Results) > 0:
				var es []string
				for _, e := range y.Results {
					es = append(es, string(fe.src[n.off(e.Pos()):n.off(e.End())]))
				}
				fmt.Fprintf(&sb, "%s = %s\n", strings.Join(results, ", "), strings.Join(es, ", "))
			}
			sb.WriteString(deferredAt(y.Pos()))
			if ast.Stmt(y) != last {
				fmt.Fprintf(&sb, "break %s\n", label)
				usedLabel = true
			}
			sb.WriteString("}")
			reps = append(reps, rep{n.off(y.Pos()), n.off(y.End()), sb.String()})
			return false
		}
		return true
	})
	if !okAll {
		return "", false, false
	}
	start, end := n.off(body.Lbrace)+1, n.off(body.Rbrace)
	var out strings.Builder
	pos := start
	// reps are in source order (Inspect is pre-order, non-overlapping)
	for _, r := range reps {
		out.Write(fe.src[pos:r.from])
		out.WriteString(r.text)
		pos = r.to
	}
	out.Write(fe.src[pos:end])
	// falling off the end
	if _, isRet := last.(*ast.ReturnStmt); !isRet {
		out.WriteString("\n")
		out.WriteString(deferredAt(body.Rbrace))
	}
	return out.String(), usedLabel, true
}

// ---------------------------------------------------------------------------
// call sites

func (n *normaliser) inlineAll() {
	for _, f := range n.pk.Syntax {
		if skipFile(n.pk, f) {
			continue
		}
		for _, d := range f.Decls {
			if gd, isGen := d.(*ast.GenDecl); isGen {
				// function literals in package-level initialisers (e.g. the sort keys)
				ast.Inspect(gd, func(x ast.Node) bool {
					if fl, ok := x.(*ast.FuncLit); ok {
						n.visitList(f, nil, fl.Body.List)
						return false
					}
					return true
				})
				continue
			}
			fd, ok := d.(*ast.FuncDecl)
			if !ok || fd.Body == nil {
				continue
			}
			n.visitList(f, fd, fd.Body.List)
		}
	}
}

func (n *normaliser) addEdit(f *ast.File, from, to token.Pos, text string) {
	fe, err := n.fe(f)
	if err != nil {
		return
	}
	// keep reported positions of the following source aligned with the file as written
	next := n.pk.Fset.Position(to)
	text += fmt.Sprintf("\n//line %s:%d\n", next.Filename, next.Line+1)
	// swallow the rest of the line the statement ended on only if it is blank
	end := n.off(to)
	rest := end
	for rest < len(fe.src) && (fe.src[rest] == ' ' || fe.src[rest] == '\t') {
		rest++
	}
	if rest < len(fe.src) && fe.src[rest] == '\n' {
		end = rest + 1
	} else {
		// something follows on the same line (e.g. "} else {"): no line directive possible here
		text = strings.TrimSuffix(text, fmt.Sprintf("\n//line %s:%d\n", next.Filename, next.Line+1)) + "\n"
	}
	fe.edits = append(fe.edits, edit{n.off(from), end, text})
}

func (n *normaliser) note(s *site, how string) {
	p := n.pk.Fset.Position(s.call.Pos())
	n.res.Notes = append(n.res.Notes, fmt.Sprintf("inlined helper %s at %s:%d (%s)", funcKey(s.decl), shortName(p.Filename), p.Line, how))
}

func shortName(f string) string {
	if i := strings.LastIndex(f, "/"); i >= 0 {
		return f[i+1:]
	}
	return f
}

func (n *normaliser) visitList(f *ast.File, fd *ast.FuncDecl, list []ast.Stmt) {
	for _, st := range list {
		n.visitStmt(f, fd, st)
	}
}

func (n *normaliser) visitStmt(f *ast.File, fd *ast.FuncDecl, st ast.Stmt) {
	if st == nil {
		return
	}
	if n.tryStmt(f, st) {
		return
	}
	// descend
	switch s := st.(type) {
	case *ast.BlockStmt:
		n.visitList(f, fd, s.List)
	case *ast.IfStmt:
		n.visitList(f, fd, s.Body.List)
		if s.Else != nil {
			n.visitStmt(f, fd, s.Else)
		}
	case *ast.ForStmt:
		n.visitList(f, fd, s.Body.List)
	case *ast.RangeStmt:
		n.visitList(f, fd, s.Body.List)
	case *ast.SwitchStmt:
		n.visitList(f, fd, s.Body.List)
	case *ast.TypeSwitchStmt:
		n.visitList(f, fd, s.Body.List)
	case *ast.SelectStmt:
		n.visitList(f, fd, s.Body.List)
	case *ast.CaseClause:
		n.visitList(f, fd, s.Body)
	case *ast.CommClause:
		n.visitList(f, fd, s.Body)
	case *ast.LabeledStmt:
		// the labelled statement itself is not replaced (a label must keep its statement)
		switch inner := s.Stmt.(type) {
		case *ast.ForStmt:
			n.visitList(f, fd, inner.Body.List)
		case *ast.RangeStmt:
			n.visitList(f, fd, inner.Body.List)
		case *ast.BlockStmt:
			n.visitList(f, fd, inner.List)
		case *ast.SelectStmt:
			n.visitList(f, fd, inner.Body.List)
		case *ast.SwitchStmt:
			n.visitList(f, fd, inner.Body.List)
		}
	}
	// function literals inside the statement's expressions
	n.visitFuncLits(f, fd, st)
}

func (n *normaliser) visitFuncLits(f *ast.File, fd *ast.FuncDecl, st ast.Stmt) {
	var heads []ast.Node
	switch s := st.(type) {
	case *ast.ExprStmt:
		heads = append(heads, s.X)
	case *ast.AssignStmt:
		for _, e := range s.Rhs {
			heads = append(heads, e)
		}
	case *ast.GoStmt:
		heads = append(heads, s.Call)
	case *ast.DeferStmt:
		heads = append(heads, s.Call)
	case *ast.ReturnStmt:
		for _, e := range s.Results {
			heads = append(heads, e)
		}
	case *ast.DeclStmt:
		heads = append(heads, s.Decl)
	}
	for _, h := range heads {
		ast.Inspect(h, func(x ast.Node) bool {
			if fl, ok := x.(*ast.FuncLit); ok {
				n.visitList(f, fd, fl.Body.List)
				return false
			}
			return true
		})
	}
}

// firstCall returns the call of an unknown helper that is evaluated before
// every other call or receive of the expressions, and unconditionally.
func (n *normaliser) firstCall(exprs ...ast.Expr) *site {
	var target *site
	var targetCall *ast.CallExpr
	blocked := false
	var walk func(e ast.Node, conditional bool)
	walk = func(e ast.Node, conditional bool) {
		if e == nil || blocked || target != nil {
			return
		}
		switch x := e.(type) {
		case *ast.FuncLit:
			return
		case *ast.BinaryExpr:
			walk(x.X, conditional)
			if x.Op == token.LAND || x.Op == token.LOR {
				// the right operand is evaluated conditionally: nothing in it may be hoisted,
				// and nothing after it either
				if target == nil {
					hasEffect := false
					ast.Inspect(x.Y, func(y ast.Node) bool {
						switch z := y.(type) {
						case *ast.CallExpr:
							hasEffect = true
						case *ast.UnaryExpr:
							if z.Op == token.ARROW {
								hasEffect = true
							}
						}
						return !hasEffect
					})
					if hasEffect {
						blocked = true
					}
				}
				return
			}
			walk(x.Y, conditional)
		case *ast.UnaryExpr:
			if x.Op == token.ARROW {
				walk(x.X, conditional)
				blocked = true // a receive precedes whatever follows
				return
			}
			walk(x.X, conditional)
		case *ast.CallExpr:
			// operands first: function value, then arguments
			walk(x.Fun, conditional)
			for _, a := range x.Args {
				walk(a, conditional)
			}
			if blocked || target != nil {
				return
			}
			if s := n.siteOf(x); s != nil {
				target, targetCall = s, x
				return
			}
			// a conversion or a builtin without effects does not block
			if tv, ok := n.pk.TypesInfo.Types[x.Fun]; ok && tv.IsType() {
				return
			}
			if id, ok := ast.Unparen(x.Fun).(*ast.Ident); ok {
				if _, isB := n.pk.TypesInfo.Uses[id].(*types.Builtin); isB && (id.Name == "len" || id.Name == "cap") {
					return
				}
			}
			blocked = true
		default:
			// generic traversal of children in source order
			ast.Inspect(e, func(y ast.Node) bool {
				if y == e || y == nil {
					return true
				}
				walk(y, conditional)
				return false
			})
		}
	}
	for _, e := range exprs {
		walk(e, false)
	}
	_ = targetCall
	return target
}

func (n *normaliser) tryStmt(f *ast.File, st ast.Stmt) bool {
	info := n.pk.TypesInfo
	stText := func() string { return n.text(f, st.Pos(), st.End()) }
	replaceIn := func(whole ast.Node, c *ast.CallExpr, with string) string {
		t := n.text(f, whole.Pos(), whole.End())
		a, b := n.off(c.Pos())-n.off(whole.Pos()), n.off(c.End())-n.off(whole.Pos())
		return t[:a] + with + t[b:]
	}
	switch s := st.(type) {
	case *ast.GoStmt, *ast.DeferStmt:
		var call *ast.CallExpr
		kw := "go"
		if g, ok := s.(*ast.GoStmt); ok {
			call = g.Call
		} else {
			call = s.(*ast.DeferStmt).Call
			kw = "defer"
		}
		si := n.siteOf(call)
		if si == nil || !n.hygienic(si, f, call.Pos()) {
			return false
		}
		// defers inside the helper keep their meaning in a literal: no restriction beyond inlinable
		qok := true
		q := n.qualifier(f, &qok)
		sig := si.fn.Type().(*types.Signature)
		var params, args []string
		if si.recvX != nil {
			name := "_"
			if len(si.decl.Recv.List[0].Names) == 1 {
				name = si.decl.Recv.List[0].Names[0].Name
			}
			x := n.text(f, si.recvX.Pos(), si.recvX.End())
			if si.recvOp != "" {
				x = si.recvOp + "(" + x + ")"
			}
			params = append(params, name+" "+types.TypeString(sig.Recv().Type(), q))
			args = append(args, x)
		}
		i := 0
		for _, fl := range si.decl.Type.Params.List {
			names := fl.Names
			if len(names) == 0 {
				names = []*ast.Ident{{Name: "_"}}
			}
			for _, nm := range names {
				params = append(params, nm.Name+" "+types.TypeString(sig.Params().At(i).Type(), q))
				args = append(args, n.text(f, call.Args[i].Pos(), call.Args[i].End()))
				i++
			}
		}
		var results []string
		if si.decl.Type.Results != nil {
			j := 0
			for _, fl := range si.decl.Type.Results.List {
				names := fl.Names
				if len(names) == 0 {
					names = []*ast.Ident{nil}
				}
				for _, nm := range names {
					t := types.TypeString(sig.Results().At(j).Type(), q)
					if nm != nil {
						t = nm.Name + " " + t
					}
					results = append(results, t)
					j++
				}
			}
		}
		if !qok {
			return false
		}
		cf := n.fileOf[si.decl]
		body := n.text(cf, si.decl.Body.Pos(), si.decl.Body.End())
		res := ""
		if len(results) > 0 {
			res = " (" + strings.Join(results, ", ") + ")"
		}
		text := fmt.Sprintf("%s func(%s)%s %s(%s)", kw, strings.Join(params, ", "), res, body, strings.Join(args, ", "))
		n.addEdit(f, st.Pos(), st.End(), text)
		n.note(si, kw+" statement: function literal")
		return true

	case *ast.ExprStmt:
		if c, ok := ast.Unparen(s.X).(*ast.CallExpr); ok {
			if si := n.siteOf(c); si != nil {
				// arguments may themselves contain calls: they are evaluated first anyway
				ex, ok := n.expand(si, f)
				if !ok {
					return false
				}
				var sb strings.Builder
				sb.WriteString("{\n" + ex.prelude)
				for _, r := range ex.results {
					fmt.Fprintf(&sb, "_ = %s\n", r)
				}
				sb.WriteString("}")
				n.addEdit(f, st.Pos(), st.End(), sb.String())
				n.note(si, "statement")
				return true
			}
		}
		return n.hoist(f, st, true, s.X)

	case *ast.AssignStmt:
		if len(s.Rhs) == 1 {
			if c, ok := ast.Unparen(s.Rhs[0]).(*ast.CallExpr); ok {
				if si := n.siteOf(c); si != nil {
					sig := si.fn.Type().(*types.Signature)
					if sig.Results().Len() != len(s.Lhs) {
						return false
					}
					ex, ok := n.expand(si, f)
					if !ok {
						return false
					}
					var sb strings.Builder
					var lhs []string
					for _, l := range s.Lhs {
						lhs = append(lhs, n.text(f, l.Pos(), l.End()))
					}
					if s.Tok == token.DEFINE {
						qok := true
						q := n.qualifier(f, &qok)
						// arguments first (they may mention an outer variable that a new one shadows)
						sb.WriteString(ex.prelude)
						for _, l := range s.Lhs {
							id, isID := l.(*ast.Ident)
							if !isID || id.Name == "_" {
								continue
							}
							if obj := info.Defs[id]; obj != nil {
								fmt.Fprintf(&sb, "var %s %s\n", id.Name, types.TypeString(obj.Type(), q))
							}
						}
						if !qok {
							return false
						}
						fmt.Fprintf(&sb, "%s = %s", strings.Join(lhs, ", "), strings.Join(ex.results, ", "))
						// a new variable that is never used afterwards was an error before, too
					} else if s.Tok == token.ASSIGN {
						fmt.Fprintf(&sb, "{\n%s%s = %s\n}", ex.prelude, strings.Join(lhs, ", "), strings.Join(ex.results, ", "))
					} else {
						return false
					}
					n.addEdit(f, st.Pos(), st.End(), sb.String())
					n.note(si, "assignment")
					return true
				}
			}
		}
		braces := s.Tok != token.DEFINE
		return n.hoist(f, st, braces, append(append([]ast.Expr{}, s.Lhs...), s.Rhs...)...)

	case *ast.ReturnStmt:
		if len(s.Results) == 1 {
			if c, ok := ast.Unparen(s.Results[0]).(*ast.CallExpr); ok {
				if si := n.siteOf(c); si != nil {
					ex, ok := n.expand(si, f)
					if !ok {
						return false
					}
					text := "{\n" + ex.prelude + "return " + strings.Join(ex.results, ", ") + "\n}"
					n.addEdit(f, st.Pos(), st.End(), text)
					n.note(si, "return")
					return true
				}
			}
		}
		return n.hoist(f, st, true, s.Results...)

	case *ast.IfStmt:
		if s.Init != nil {
			// { init; if cond {...} } with the init statement rewritten on its own in the next round
			if !n.containsSite(s.Init) {
				return false
			}
			rest := "if " + n.text(f, s.Cond.Pos(), s.End())
			text := "{\n" + n.text(f, s.Init.Pos(), s.Init.End()) + "\n" + rest + "\n}"
			n.addEdit(f, st.Pos(), st.End(), text)
			n.res.Notes = append(n.res.Notes, fmt.Sprintf("split if-init at %s:%d", shortName(n.pk.Fset.Position(st.Pos()).Filename), n.pk.Fset.Position(st.Pos()).Line))
			return true
		}
		if si := n.firstCall(s.Cond); si != nil {
			sig := si.fn.Type().(*types.Signature)
			if sig.Results().Len() != 1 {
				return false
			}
			ex, ok := n.expand(si, f)
			if !ok {
				return false
			}
			cond := replaceIn(s.Cond, si.call, ex.results[0])
			text := "{\n" + ex.prelude + "if " + cond + " " + n.text(f, s.Body.Pos(), s.End()) + "\n}"
			n.addEdit(f, st.Pos(), st.End(), text)
			n.note(si, "if condition")
			return true
		}
		return false

	case *ast.SendStmt:
		return n.hoist(f, st, true, s.Chan, s.Value)
	case *ast.IncDecStmt:
		return n.hoist(f, st, true, s.X)
	}
	_ = stText
	return false
}

func (n *normaliser) containsSite(nd ast.Node) bool {
	found := false
	ast.Inspect(nd, func(x ast.Node) bool {
		switch y := x.(type) {
		case *ast.FuncLit:
			return false
		case *ast.CallExpr:
			if n.siteOf(y) != nil {
				found = true
			}
		}
		return !found
	})
	return found
}

// hoist replaces the first-evaluated call of an unknown helper inside a
// simple statement by a result variable computed before the statement.
func (n *normaliser) hoist(f *ast.File, st ast.Stmt, braces bool, exprs ...ast.Expr) bool {
	si := n.firstCall(exprs...)
	if si == nil {
		return false
	}
	sig := si.fn.Type().(*types.Signature)
	if sig.Results().Len() != 1 {
		return false
	}
	ex, ok := n.expand(si, f)
	if !ok {
		return false
	}
	t := n.text(f, st.Pos(), st.End())
	a, b := n.off(si.call.Pos())-n.off(st.Pos()), n.off(si.call.End())-n.off(st.Pos())
	body := ex.prelude + t[:a] + ex.results[0] + t[b:]
	if braces {
		body = "{\n" + body + "\n}"
	}
	n.addEdit(f, st.Pos(), st.End(), body)
	n.note(si, "operand")
	return true
}
