package sx

import (
	"fmt"
	"go/types"
	"sort"
	"strings"

	"golang.org/x/tools/go/ssa"
)

// Kind classifies the leaf of a provenance query.
type Kind int

const (
	KUnknown  Kind = iota
	KParam         // function parameter
	KFreeVar       // unresolved closure capture
	KConst         // constant (V is *ssa.Const)
	KCall          // result of a single-result call (V is *ssa.Call)
	KExtract       // component Index of tuple V (call, select, comma-ok ...)
	KField         // field Field read from a value whose origins are Base
	KElem          // element of slice/array/map whose origins are Base
	KGlobal        // load of package-level variable V
	KGlobalAddr    // address of a global
	KAlloc         // address of allocation V (composite literal / new / escaping local)
	KMake          // MakeMap / MakeChan / MakeSlice (V)
	KClosure       // MakeClosure (V)
	KFunc          // *ssa.Function
	KBinOp         // arithmetic/comparison (V)
	KUnOp          // other unary op, incl. channel receive (V)
	KZero          // zero value of a local that was never stored
	KRange         // range/next iteration value
	KEscaped       // the storage escaped to code we do not see
	KBuiltin
)

var kindNames = map[Kind]string{KUnknown: "unknown", KParam: "param", KFreeVar: "freevar", KConst: "const", KCall: "call",
	KExtract: "extract", KField: "field", KElem: "elem", KGlobal: "global", KGlobalAddr: "&global", KAlloc: "alloc", KMake: "make",
	KClosure: "closure", KFunc: "func", KBinOp: "binop", KUnOp: "unop", KZero: "zero", KRange: "range", KEscaped: "escaped", KBuiltin: "builtin"}

// Origin is one possible source of a value.
type Origin struct {
	Kind  Kind
	V     ssa.Value
	Index int        // KExtract
	Field *types.Var // KField
	Base  []Origin   // KField / KElem
}

func (o Origin) String() string {
	switch o.Kind {
	case KParam, KFreeVar:
		return fmt.Sprintf("%s(%s)", kindNames[o.Kind], o.V.Name())
	case KConst:
		return "const(" + o.V.String() + ")"
	case KCall:
		return "call(" + callDesc(o.V) + ")"
	case KExtract:
		return fmt.Sprintf("result#%d(%s)", o.Index, callDesc(o.V))
	case KField:
		return fmt.Sprintf("%s.%s", OriginsString(o.Base), o.Field.Name())
	case KElem:
		return fmt.Sprintf("%s[·]", OriginsString(o.Base))
	case KGlobal, KGlobalAddr:
		return kindNames[o.Kind] + "(" + o.V.Name() + ")"
	case KFunc:
		return "func(" + o.V.Name() + ")"
	}
	if o.V != nil {
		return kindNames[o.Kind] + "(" + o.V.Name() + "=" + strings.TrimSpace(o.V.String()) + ")"
	}
	return kindNames[o.Kind]
}

func callDesc(v ssa.Value) string {
	switch c := v.(type) {
	case *ssa.Call:
		if n := StaticCalleeName(&c.Call); n != "" {
			return n
		}
		return "dynamic " + c.Call.Value.Name()
	case *ssa.Select:
		return "select"
	}
	return strings.TrimSpace(v.String())
}

// OriginsString renders a set of origins.
func OriginsString(os []Origin) string {
	if len(os) == 1 {
		return os[0].String()
	}
	var s []string
	for _, o := range os {
		s = append(s, o.String())
	}
	sort.Strings(s)
	return "{" + strings.Join(s, " | ") + "}"
}

// Prov computes provenance inside one function (and its closures).
type Prov struct {
	seen    map[ssa.Value]bool
	loading map[string]bool
}

// Origins returns the possible sources of v.
func Origins(v ssa.Value) []Origin {
	p := &Prov{seen: map[ssa.Value]bool{}}
	out := p.val(v)
	return dedup(out)
}

func dedup(in []Origin) []Origin {
	seen := map[string]bool{}
	var out []Origin
	for _, o := range in {
		k := fmt.Sprintf("%d/%p/%d/%p/%s", o.Kind, o.V, o.Index, o.Field, OriginsString(o.Base))
		if !seen[k] {
			seen[k] = true
			out = append(out, o)
		}
	}
	return out
}

func (p *Prov) val(v ssa.Value) []Origin {
	if p.seen[v] {
		return nil
	}
	switch x := v.(type) {
	case *ssa.Phi:
		p.seen[v] = true
		var out []Origin
		for _, e := range x.Edges {
			out = append(out, p.val(e)...)
		}
		return out
	case *ssa.ChangeInterface:
		return p.val(x.X)
	case *ssa.MakeInterface:
		return p.val(x.X)
	case *ssa.ChangeType:
		return p.val(x.X)
	case *ssa.Convert:
		return p.val(x.X)
	case *ssa.TypeAssert:
		if x.CommaOk {
			return []Origin{{Kind: KExtract, V: x}}
		}
		return p.val(x.X)
	case *ssa.Slice:
		return p.val(x.X)
	case *ssa.Parameter:
		if a := literalArg(x); a != nil {
			return p.val(a)
		}
		return []Origin{{Kind: KParam, V: x}}
	case *ssa.FreeVar:
		if b := freeVarBinding(x); b != nil {
			return p.val(b)
		}
		return []Origin{{Kind: KFreeVar, V: x}}
	case *ssa.Const:
		return []Origin{{Kind: KConst, V: x}}
	case *ssa.Call:
		return []Origin{{Kind: KCall, V: x}}
	case *ssa.Extract:
		return []Origin{{Kind: KExtract, V: x.Tuple, Index: x.Index}}
	case *ssa.Global:
		return []Origin{{Kind: KGlobalAddr, V: x}}
	case *ssa.Function:
		return []Origin{{Kind: KFunc, V: x}}
	case *ssa.Builtin:
		return []Origin{{Kind: KBuiltin, V: x}}
	case *ssa.MakeClosure:
		return []Origin{{Kind: KClosure, V: x}}
	case *ssa.MakeMap, *ssa.MakeChan, *ssa.MakeSlice:
		return []Origin{{Kind: KMake, V: x}}
	case *ssa.Alloc:
		return []Origin{{Kind: KAlloc, V: x}}
	case *ssa.BinOp:
		return []Origin{{Kind: KBinOp, V: x}}
	case *ssa.Field:
		return p.field(p.val(x.X), structField(x.X.Type(), x.Field))
	case *ssa.FieldAddr:
		// address of a field: treated as "field of base" for pointer chasing
		return []Origin{{Kind: KField, Field: structField(x.X.Type(), x.Field), Base: p.val(x.X), V: x}}
	case *ssa.IndexAddr:
		return []Origin{{Kind: KElem, Base: p.val(x.X), V: x}}
	case *ssa.Index:
		return []Origin{{Kind: KElem, Base: p.val(x.X), V: x}}
	case *ssa.Lookup:
		return []Origin{{Kind: KElem, Base: p.val(x.X), V: x}}
	case *ssa.Next, *ssa.Range:
		return []Origin{{Kind: KRange, V: x}}
	case *ssa.UnOp:
		if x.Op.String() != "*" {
			return []Origin{{Kind: KUnOp, V: x}}
		}
		return p.load(x.X)
	}
	return []Origin{{Kind: KUnknown, V: v}}
}

func structField(t types.Type, i int) *types.Var {
	if p, ok := t.Underlying().(*types.Pointer); ok {
		t = p.Elem()
	}
	st, ok := t.Underlying().(*types.Struct)
	if !ok {
		return nil
	}
	return st.Field(i)
}

// field projects field f out of a struct value with the given origins.
func (p *Prov) field(base []Origin, f *types.Var) []Origin {
	return []Origin{{Kind: KField, Field: f, Base: base}}
}

// load resolves *addr.
func (p *Prov) load(addr ssa.Value) []Origin {
	switch a := addr.(type) {
	case *ssa.Global:
		return []Origin{{Kind: KGlobal, V: a}}
	case *ssa.Alloc:
		return p.loadAlloc(a, nil)
	case *ssa.FreeVar:
		if b := freeVarBinding(a); b != nil {
			return p.load(b)
		}
		return []Origin{{Kind: KFreeVar, V: a}}
	case *ssa.FieldAddr:
		f := structField(a.X.Type(), a.Field)
		if al, path := allocPath(a); al != nil {
			return p.loadAlloc(al, path)
		}
		return []Origin{{Kind: KField, Field: f, Base: p.val(a.X)}}
	case *ssa.IndexAddr:
		return []Origin{{Kind: KElem, Base: p.val(a.X), V: a}}
	case *ssa.Phi:
		if p.seen[a] {
			return nil
		}
		p.seen[a] = true
		var out []Origin
		for _, e := range a.Edges {
			out = append(out, p.load(e)...)
		}
		return out
	}
	// pointer value from elsewhere: "pointee of <origins>"
	return []Origin{{Kind: KElem, Base: p.val(addr), V: addr}}
}

// allocPath resolves a chain of FieldAddr down to a local Alloc.
func allocPath(fa *ssa.FieldAddr) (*ssa.Alloc, []int) {
	switch x := fa.X.(type) {
	case *ssa.Alloc:
		return x, []int{fa.Field}
	case *ssa.FreeVar:
		if b, ok := freeVarBinding(x).(*ssa.Alloc); ok {
			return b, []int{fa.Field}
		}
	case *ssa.FieldAddr:
		if al, p := allocPath(x); al != nil {
			return al, append(p, fa.Field)
		}
	}
	return nil, nil
}

// freeVarBinding finds the value bound to a free variable at the (unique)
// MakeClosure site of its function.
// SingleCallArg resolves a parameter of a named function of the package that
// is invoked at exactly one place (call, go or defer) and never used as a
// value to the argument passed there. Rules use it on demand to follow a
// value through a helper's or a goroutine body's parameter list.
func SingleCallArg(par *ssa.Parameter) ssa.Value {
	fn := par.Parent()
	if fn == nil || fn.Pkg == nil || fn.Parent() != nil {
		return nil
	}
	if obj := fn.Object(); obj != nil && obj.Exported() {
		return nil // callable from outside
	}
	idx := -1
	for i, q := range fn.Params {
		if q == par {
			idx = i
		}
	}
	if idx < 0 {
		return nil
	}
	var arg ssa.Value
	sites, others := 0, 0
	visit := func(g *ssa.Function) {
		WithAnon(g, func(h *ssa.Function) {
			AllInstrs(h, func(_ Node, in ssa.Instruction) {
				if cc := CallOf(in); cc != nil && !cc.IsInvoke() && cc.StaticCallee() == fn {
					sites++
					if idx < len(cc.Args) {
						arg = cc.Args[idx]
					}
					return
				}
				for _, op := range in.Operands(nil) {
					if *op == ssa.Value(fn) {
						others++
					}
				}
			})
		})
	}
	for _, m := range fn.Pkg.Members {
		switch x := m.(type) {
		case *ssa.Function:
			visit(x)
		case *ssa.Type:
			for _, t := range []types.Type{x.Type(), types.NewPointer(x.Type())} {
				ms := fn.Prog.MethodSets.MethodSet(t)
				for i := 0; i < ms.Len(); i++ {
					if mf := fn.Prog.MethodValue(ms.At(i)); mf != nil && mf.Pkg == fn.Pkg && mf.Synthetic == "" {
						visit(mf)
					}
				}
			}
		}
	}
	if sites != 1 || others != 0 {
		return nil
	}
	return arg
}

// literalArg resolves a parameter of a function literal that is invoked at
// exactly one place and used nowhere else (`go func(x T) {...}(v)`, the same
// with defer, or an immediate call) to the argument passed there.
func literalArg(par *ssa.Parameter) ssa.Value {
	fn := par.Parent()
	parent := fn.Parent()
	if parent == nil {
		return nil
	}
	idx := -1
	for i, q := range fn.Params {
		if q == par {
			idx = i
		}
	}
	if idx < 0 {
		return nil
	}
	var arg ssa.Value
	sites, others := 0, 0
	isFn := func(v ssa.Value) bool {
		if v == ssa.Value(fn) {
			return true
		}
		mc, ok := v.(*ssa.MakeClosure)
		return ok && mc.Fn == ssa.Value(fn)
	}
	WithAnon(parent, func(g *ssa.Function) {
		AllInstrs(g, func(_ Node, in ssa.Instruction) {
			if cc := CallOf(in); cc != nil && isFn(cc.Value) {
				sites++
				if idx < len(cc.Args) {
					arg = cc.Args[idx]
				}
				for _, a := range cc.Args {
					if isFn(a) {
						others++
					}
				}
				return
			}
			if _, isMC := in.(*ssa.MakeClosure); isMC {
				return
			}
			for _, op := range in.Operands(nil) {
				if *op != nil && isFn(*op) {
					others++
				}
			}
		})
	})
	if sites != 1 || others != 0 || arg == nil {
		return nil
	}
	return arg
}

func freeVarBinding(fv *ssa.FreeVar) ssa.Value {
	fn := fv.Parent()
	parent := fn.Parent()
	if parent == nil {
		return nil
	}
	idx := -1
	for i, f := range fn.FreeVars {
		if f == fv {
			idx = i
		}
	}
	if idx < 0 {
		return nil
	}
	var found ssa.Value
	n := 0
	WithAnon(parent, func(g *ssa.Function) {
		AllInstrs(g, func(_ Node, in ssa.Instruction) {
			if mc, ok := in.(*ssa.MakeClosure); ok && mc.Fn == fn {
				n++
				found = mc.Bindings[idx]
			}
		})
	})
	if n != 1 {
		return nil
	}
	return found
}

// storesTo collects every store whose address resolves to (alloc, path) or to
// a prefix of it, in the allocating function and all of its closures.
type storeHit struct {
	val  ssa.Value
	rest []int // remaining path to project out of val (when a prefix was stored)
}

func (p *Prov) loadAlloc(al *ssa.Alloc, path []int) []Origin {
	if p.loading == nil {
		p.loading = map[string]bool{}
	}
	lk := fmt.Sprintf("%p%v", al, path)
	if p.loading[lk] {
		return nil // cyclic definition (x = f(x)): contributes nothing new
	}
	p.loading[lk] = true
	defer delete(p.loading, lk)
	root := al.Parent()
	for root.Parent() != nil {
		root = root.Parent()
	}
	var hits []storeHit
	escaped := false
	var visitAddr func(addr ssa.Value, apath []int)
	visited := map[ssa.Value]bool{}
	visitAddr = func(addr ssa.Value, apath []int) {
		if visited[addr] {
			return
		}
		visited[addr] = true
		refs := addr.Referrers()
		if refs == nil {
			return
		}
		for _, r := range *refs {
			switch u := r.(type) {
			case *ssa.Store:
				if u.Addr == addr {
					// store to apath: relevant if apath is a prefix of path
					if isPrefix(apath, path) {
						hits = append(hits, storeHit{u.Val, path[len(apath):]})
					} else if isPrefix(path, apath) {
						// partial store into the region we load as a whole: composite
						hits = append(hits, storeHit{nil, nil})
					}
				} else if u.Val == addr {
					escaped = true
				}
			case *ssa.UnOp, *ssa.DebugRef:
			case *ssa.FieldAddr:
				visitAddr(u, append(append([]int{}, apath...), u.Field))
			case *ssa.IndexAddr:
				// array element addresses: not tracked precisely
			case *ssa.MakeClosure:
				for i, b := range u.Bindings {
					if b == addr {
						fn := u.Fn.(*ssa.Function)
						visitAddr(fn.FreeVars[i], apath)
					}
				}
			case *ssa.Call, *ssa.Go, *ssa.Defer:
				escaped = true
			case *ssa.MakeInterface, *ssa.Phi, *ssa.Return, *ssa.Send, *ssa.MapUpdate, *ssa.ChangeType, *ssa.Convert:
				escaped = true
			}
		}
	}
	visitAddr(al, nil)
	var out []Origin
	composite := false
	// the in-place literal pattern: `x = T{f: v}` naming only some fields is compiled as a store of the
	// zero value of T into x followed by the field stores. The zero store does not reach a load of a
	// field that is stored afterwards; for a field that is not, the load yields the zero value.
	hasZeroWhole, hasOther := false, false
	for _, h := range hits {
		if h.val == nil {
			continue
		}
		if c, isC := h.val.(*ssa.Const); isC && c.Value == nil && len(h.rest) > 0 {
			if _, isStruct := c.Type().Underlying().(*types.Struct); isStruct {
				hasZeroWhole = true
				continue
			}
		}
		hasOther = true
	}
	for _, h := range hits {
		if h.val == nil {
			composite = true
			continue
		}
		if hasZeroWhole {
			if c, isC := h.val.(*ssa.Const); isC && c.Value == nil && len(h.rest) > 0 {
				if _, isStruct := c.Type().Underlying().(*types.Struct); isStruct {
					if !hasOther {
						out = append(out, Origin{Kind: KZero, V: al})
					}
					continue
				}
			}
		}
		o := p.val(h.val)
		t := h.val.Type()
		for _, fi := range h.rest {
			f := structField(t, fi)
			o = []Origin{{Kind: KField, Field: f, Base: o}}
			if f != nil {
				t = f.Type()
			}
		}
		out = append(out, o...)
	}
	if composite && len(out) == 0 {
		out = append(out, Origin{Kind: KAlloc, V: al})
	}
	if len(hits) == 0 {
		out = append(out, Origin{Kind: KZero, V: al})
	}
	if escaped {
		out = append(out, Origin{Kind: KEscaped, V: al})
	}
	return out
}

func isPrefix(a, b []int) bool {
	if len(a) > len(b) {
		return false
	}
	for i := range a {
		if a[i] != b[i] {
			return false
		}
	}
	return true
}

// ---------------------------------------------------------------------------
// matching helpers

// Single returns the only origin or false.
func Single(os []Origin) (Origin, bool) {
	if len(os) == 1 {
		return os[0], true
	}
	return Origin{}, false
}

// All reports whether every origin satisfies f (and there is at least one).
func All(os []Origin, f func(Origin) bool) bool {
	if len(os) == 0 {
		return false
	}
	for _, o := range os {
		if !f(o) {
			return false
		}
	}
	return true
}

// Any reports whether some origin satisfies f.
func Any(os []Origin, f func(Origin) bool) bool {
	for _, o := range os {
		if f(o) {
			return true
		}
	}
	return false
}

// IsFieldNamed matches "field <name> of a value satisfying base".
func IsFieldNamed(name string, base func(Origin) bool) func(Origin) bool {
	return func(o Origin) bool {
		return o.Kind == KField && o.Field != nil && o.Field.Name() == name && All(o.Base, base)
	}
}

// IsParam matches a given parameter value.
func IsParam(v ssa.Value) func(Origin) bool {
	return func(o Origin) bool { return o.Kind == KParam && o.V == v }
}

// IsParamNamed matches a parameter by name.
func IsParamNamed(name string) func(Origin) bool {
	return func(o Origin) bool { return o.Kind == KParam && o.V.Name() == name }
}

// IsExtractOf matches component idx of tuple value t.
func IsExtractOf(t ssa.Value, idx int) func(Origin) bool {
	return func(o Origin) bool { return o.Kind == KExtract && o.V == t && o.Index == idx }
}

// IsNilConst matches the nil constant.
func IsNilConst(o Origin) bool {
	c, ok := o.V.(*ssa.Const)
	return o.Kind == KConst && ok && c.IsNil()
}

// IsZeroOrNil matches nil constants and never-stored locals.
func IsZeroOrNil(o Origin) bool { return IsNilConst(o) || o.Kind == KZero }

// Or combines matchers.
func Or(fs ...func(Origin) bool) func(Origin) bool {
	return func(o Origin) bool {
		for _, f := range fs {
			if f(o) {
				return true
			}
		}
		return false
	}
}

// AnyOrigin accepts everything.
func AnyOrigin(Origin) bool { return true }

// IsCallTo matches a single-result call to the named static callee.
func IsCallTo(name string) func(Origin) bool {
	return func(o Origin) bool {
		c, ok := o.V.(*ssa.Call)
		return o.Kind == KCall && ok && StaticCalleeName(&c.Call) == name
	}
}

// IsGlobalNamed matches a load of a package-level variable.
func IsGlobalNamed(name string) func(Origin) bool {
	return func(o Origin) bool { return o.Kind == KGlobal && o.V.Name() == name }
}

// FieldOrigins returns the origins of field number idx of struct value v
// (v may be a load of a local composite literal, in which case the store to
// that field is found).
func FieldOrigins(v ssa.Value, idx int) []Origin {
	p := &Prov{seen: map[ssa.Value]bool{}}
	if u, ok := v.(*ssa.UnOp); ok && u.Op.String() == "*" {
		if al, ok := u.X.(*ssa.Alloc); ok {
			return dedup(p.loadAlloc(al, []int{idx}))
		}
	}
	return dedup([]Origin{{Kind: KField, Field: structField(v.Type(), idx), Base: p.val(v)}})
}

// FieldIndex returns the index of the named field in struct type t, or -1.
func FieldIndex(t types.Type, name string) int {
	if p, ok := t.Underlying().(*types.Pointer); ok {
		t = p.Elem()
	}
	st, ok := t.Underlying().(*types.Struct)
	if !ok {
		return -1
	}
	for i := 0; i < st.NumFields(); i++ {
		if st.Field(i).Name() == name {
			return i
		}
	}
	return -1
}
