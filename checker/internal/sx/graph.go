// Package sx holds the SSA-level analyses shared by the rules: an
// instruction-granular flow graph with reachability queries (dominance,
// must-pass-through, edge dominance), value provenance and a lock-state
// dataflow.
package sx

import (
	"go/constant"
	"go/token"
	"go/types"
	"sort"
	"strings"

	"golang.org/x/tools/go/ssa"
)

// Node is an instruction position inside a function.
type Node struct {
	B *ssa.BasicBlock
	I int // index into B.Instrs
}

// Instr returns the instruction at n.
func (n Node) Instr() ssa.Instruction { return n.B.Instrs[n.I] }

// NodeOf locates an instruction.
func NodeOf(in ssa.Instruction) Node {
	b := in.Block()
	for i, x := range b.Instrs {
		if x == in {
			return Node{b, i}
		}
	}
	panic("sx.NodeOf: instruction not in its block")
}

// Edge is a CFG edge between blocks.
type Edge struct{ From, To *ssa.BasicBlock }

// Query describes a reachability question on the instruction graph.
type Query struct {
	// BlockNode, when it returns true for a node, makes that node
	// impassable (it is neither entered nor traversed).
	BlockNode func(Node) bool
	// BlockEdge, when it returns true, removes a block-level edge.
	BlockEdge func(Edge) bool
	// CondClass optionally classifies branch conditions for path-sensitive
	// search: it returns a class id ("" = unclassified) and whether the
	// If's true edge means "class value is true".
	CondClass func(*ssa.If) (string, bool)
	// InitAssign is the initial assignment of condition classes
	// ("id=1;id2=0", sorted), normally empty.
	InitAssign string
}

// Reach reports whether some path leads from the point just *after* `from`
// (or from the very start of block `from.B` when from.I < 0) to any node for
// which target returns true. Blocked nodes are never entered. The target test
// is applied before the blocked test, so a node may be both.
//
// When q.CondClass is set the search is path-sensitive on the branch
// conditions it classifies: two If instructions of the same class are assumed
// to evaluate identically along one path (used for conditions that re-load
// the same immutable value, which go/ssa does not CSE).
func Reach(from Node, target func(Node) bool, q Query) (Node, bool) {
	type st struct {
		b    *ssa.BasicBlock
		i    int
		asg  string
		pred *ssa.BasicBlock // block this one was entered from (nil at the start)
	}
	type key struct {
		b    *ssa.BasicBlock
		asg  string
		pred *ssa.BasicBlock // only distinguished for blocks that start with a phi
	}
	seen := map[key]bool{}
	var work []st
	work = append(work, st{from.B, from.I + 1, q.InitAssign, nil})
	if from.I+1 == 0 {
		seen[key{from.B, q.InitAssign, nil}] = true
	}
	for len(work) > 0 {
		s := work[len(work)-1]
		work = work[:len(work)-1]
		blocked := false
		for i := s.i; i < len(s.b.Instrs); i++ {
			n := Node{s.b, i}
			if target(n) {
				return n, true
			}
			if q.BlockNode != nil && q.BlockNode(n) {
				blocked = true
				break
			}
		}
		if blocked {
			continue
		}
		succs := s.b.Succs
		asgT, asgF := s.asg, s.asg
		allowT, allowF := true, true
		if len(succs) == 2 {
			// branches decided by the edge this block was entered through (a phi
			// of constants / of values whose nilness is known there) or by a
			// dominating test of the same value
			allowT, allowF = feasibleBranches(s.b, s.pred)
		}
		if q.CondClass != nil && len(succs) == 2 {
			if ifi, ok := s.b.Instrs[len(s.b.Instrs)-1].(*ssa.If); ok {
				if id, pos := q.CondClass(ifi); id != "" {
					// value of the class on the true edge is `pos`
					tv, fv := "1", "0"
					if !pos {
						tv, fv = "0", "1"
					}
					if cur, ok := lookupAssign(s.asg, id); ok {
						allowT = allowT && cur == tv
						allowF = allowF && cur == fv
					} else {
						asgT = addAssign(s.asg, id, tv)
						asgF = addAssign(s.asg, id, fv)
					}
				}
			}
		}
		for k, succ := range succs {
			if q.BlockEdge != nil && q.BlockEdge(Edge{s.b, succ}) {
				continue
			}
			asg := s.asg
			if len(succs) == 2 {
				if k == 0 {
					if !allowT {
						continue
					}
					asg = asgT
				} else {
					if !allowF {
						continue
					}
					asg = asgF
				}
			}
			kk := key{succ, asg, nil}
			if len(succ.Instrs) > 0 {
				if _, isPhi := succ.Instrs[0].(*ssa.Phi); isPhi {
					kk.pred = s.b
				}
			}
			if !seen[kk] {
				seen[kk] = true
				work = append(work, st{succ, 0, asg, s.b})
			}
		}
	}
	return Node{}, false
}

// Nilness of a value at a program point.
type nilness int

const (
	nilUnknown nilness = iota
	isNil
	nonNil
)

// nilnessAt decides whether v is nil when control is in block at (having
// entered v's defining phi, if any, from anywhere).
func nilnessAt(v ssa.Value, at *ssa.BasicBlock, depth int) nilness {
	if depth > 6 || v == nil {
		return nilUnknown
	}
	switch x := v.(type) {
	case *ssa.Const:
		if x.IsNil() {
			return isNil
		}
		return nilUnknown
	case *ssa.MakeInterface, *ssa.Alloc, *ssa.MakeClosure, *ssa.Function, *ssa.MakeMap, *ssa.MakeChan, *ssa.MakeSlice:
		return nonNil
	case *ssa.ChangeInterface:
		return nilnessAt(x.X, at, depth+1)
	case *ssa.Call:
		switch StaticCalleeName(&x.Call) {
		case "fmt.Errorf", "errors.New", "google.golang.org/grpc/status.Error", "google.golang.org/grpc/status.Errorf":
			return nonNil
		}
	case *ssa.Phi:
		var all nilness
		mixed := false
		for i, e := range x.Edges {
			if e == ssa.Value(x) {
				continue
			}
			n := nilnessAt(e, x.Block().Preds[i], depth+1)
			if n == nilUnknown || (all != nilUnknown && all != n) {
				mixed = true
				break
			}
			all = n
		}
		if !mixed && all != nilUnknown {
			return all
		}
		// otherwise: a dominating test of the phi itself (below)
	}
	refs := v.Referrers()
	if refs == nil {
		return nilUnknown
	}
	for _, r := range *refs {
		b, ok := r.(*ssa.BinOp)
		if !ok || (b.Op != token.EQL && b.Op != token.NEQ) {
			continue
		}
		other := b.Y
		if other == v {
			other = b.X
		}
		if c, isC := other.(*ssa.Const); !isC || !c.IsNil() {
			continue
		}
		for _, r2 := range *b.Referrers() {
			ifi, ok := r2.(*ssa.If)
			if !ok {
				continue
			}
			t := ifi.Block()
			for k, succ := range t.Succs {
				if len(succ.Preds) != 1 || !(succ == at || succ.Dominates(at)) {
					continue
				}
				// on edge k: condition is (k == 0)
				condTrue := k == 0
				eq := b.Op == token.EQL
				if condTrue == eq {
					return isNil
				}
				return nonNil
			}
		}
	}
	return nilUnknown
}

// Comparison normalises a branch condition to `x op y`: negations are folded
// into the operator, and when `left` is one of the operands it is put on the
// left (mirroring the operator). ok is false if v is not a comparison.
func Comparison(v ssa.Value, left ssa.Value) (x ssa.Value, op token.Token, y ssa.Value, ok bool) {
	neg := false
	for {
		u, isU := v.(*ssa.UnOp)
		if !isU || u.Op != token.NOT {
			break
		}
		v, neg = u.X, !neg
	}
	b, isB := v.(*ssa.BinOp)
	if !isB {
		return nil, 0, nil, false
	}
	x, op, y = b.X, b.Op, b.Y
	switch op {
	case token.LSS, token.GTR, token.LEQ, token.GEQ, token.EQL, token.NEQ:
	default:
		return nil, 0, nil, false
	}
	if neg {
		op = map[token.Token]token.Token{token.LSS: token.GEQ, token.GEQ: token.LSS, token.GTR: token.LEQ, token.LEQ: token.GTR, token.EQL: token.NEQ, token.NEQ: token.EQL}[op]
	}
	if left != nil && y == left && x != left {
		x, y = y, x
		op = map[token.Token]token.Token{token.LSS: token.GTR, token.GTR: token.LSS, token.LEQ: token.GEQ, token.GEQ: token.LEQ, token.EQL: token.EQL, token.NEQ: token.NEQ}[op]
	}
	return x, op, y, true
}

// LoopCondition returns the comparison that holds on the edge of ifi that
// stays in the loop (the successor from which ifi's block is reachable
// again), oriented with `left` on the left. ok is false if ifi does not
// control a loop or is not a comparison.
func LoopCondition(ifi *ssa.If, left ssa.Value) (x ssa.Value, op token.Token, y ssa.Value, ok bool) {
	b := ifi.Block()
	stays := func(s *ssa.BasicBlock) bool {
		if s == b {
			return true
		}
		_, r := Reach(Node{B: s, I: -1}, func(n Node) bool { return n.B == b }, Query{})
		return r
	}
	t, f := stays(b.Succs[0]), stays(b.Succs[1])
	if t == f {
		return nil, 0, nil, false
	}
	x, op, y, ok = Comparison(ifi.Cond, left)
	if !ok {
		return
	}
	if f {
		op = map[token.Token]token.Token{token.LSS: token.GEQ, token.GEQ: token.LSS, token.GTR: token.LEQ, token.LEQ: token.GTR, token.EQL: token.NEQ, token.NEQ: token.EQL}[op]
	}
	return
}

// KnownNonNil reports whether v is certainly non-nil while control is in block at.
func KnownNonNil(v ssa.Value, at *ssa.BasicBlock) bool { return nilnessAt(v, at, 0) == nonNil }

// feasibleBranches prunes the successors of a block that ends in an If whose
// outcome is fixed on the way it was entered.
func feasibleBranches(b, pred *ssa.BasicBlock) (allowT, allowF bool) {
	allowT, allowF = true, true
	ifi, ok := b.Instrs[len(b.Instrs)-1].(*ssa.If)
	if !ok {
		return
	}
	v := ifi.Cond
	pos := true
	for {
		u, ok := v.(*ssa.UnOp)
		if !ok || u.Op != token.NOT {
			break
		}
		v, pos = u.X, !pos
	}
	incoming := func(x ssa.Value) (ssa.Value, *ssa.BasicBlock) {
		ph, ok := x.(*ssa.Phi)
		if !ok || ph.Block() != b || pred == nil {
			return x, b
		}
		idx := -1
		for i, p := range b.Preds {
			if p == pred {
				if idx >= 0 {
					return x, b // entered twice from the same block: ambiguous
				}
				idx = i
			}
		}
		if idx < 0 {
			return x, b
		}
		return ph.Edges[idx], pred
	}
	// a loop-carried value that this trip round the loop did not change (the phi's
	// incoming value on the edge we came through is the phi itself) decides the
	// test the way it was decided when the loop body was entered
	if pred != nil && b.Dominates(pred) && b != pred {
		var ph *ssa.Phi
		switch x := v.(type) {
		case *ssa.Phi:
			ph = x
		case *ssa.BinOp:
			if p, ok := x.X.(*ssa.Phi); ok {
				if _, isC := x.Y.(*ssa.Const); isC {
					ph = p
				}
			}
		}
		if ph != nil && ph.Block() == b {
			if inc, _ := incoming(ph); inc == ssa.Value(ph) {
				switch {
				case b.Succs[0] == pred || b.Succs[0].Dominates(pred):
					return true, false
				case b.Succs[1] == pred || b.Succs[1].Dominates(pred):
					return false, true
				}
			}
		}
	}
	decided, val := false, false
	switch x := v.(type) {
	case *ssa.Phi, *ssa.Const:
		inc, _ := incoming(x)
		if c, ok := inc.(*ssa.Const); ok && c.Value != nil && c.Value.Kind().String() == "Bool" {
			decided, val = true, c.Value.String() == "true"
		}
	case *ssa.BinOp:
		if x.Op != token.EQL && x.Op != token.NEQ {
			break
		}
		o, k := x.X, x.Y
		if c, ok := o.(*ssa.Const); ok && c.IsNil() {
			o, k = k, o
		}
		c, ok := k.(*ssa.Const)
		if !ok || !c.IsNil() {
			break
		}
		// the phi may be separated from the test by a conversion-free load only: same block
		inc, at := incoming(o)
		switch nilnessAt(inc, at, 0) {
		case isNil:
			decided, val = true, x.Op == token.EQL
		case nonNil:
			decided, val = true, x.Op == token.NEQ
		}
	}
	if decided {
		if !pos {
			val = !val
		}
		allowT, allowF = val, !val
	}
	return
}

func lookupAssign(asg, id string) (string, bool) {
	for _, kv := range strings.Split(asg, ";") {
		if strings.HasPrefix(kv, id+"=") {
			return kv[len(id)+1:], true
		}
	}
	return "", false
}

func addAssign(asg, id, v string) string {
	parts := []string{}
	if asg != "" {
		parts = strings.Split(asg, ";")
	}
	parts = append(parts, id+"="+v)
	sort.Strings(parts)
	return strings.Join(parts, ";")
}

// Entry is the pseudo node "before the first instruction of fn".
func Entry(fn *ssa.Function) Node { return Node{fn.Blocks[0], -1} }

// IsInstr makes a target predicate for one instruction.
func IsInstr(in ssa.Instruction) func(Node) bool {
	return func(n Node) bool { return n.Instr() == in }
}

// MustPassThrough reports whether every path from `from` to a node
// satisfying `to` passes through a node satisfying `via`. It returns a
// witness node of `to` reachable while avoiding `via` when the answer is no.
func MustPassThrough(from Node, via, to func(Node) bool) (Node, bool) {
	w, ok := Reach(from, to, Query{BlockNode: via})
	return w, !ok
}

// EdgeDominates reports whether every path from function entry to n uses
// edge e.
func EdgeDominates(fn *ssa.Function, e Edge, n Node) bool {
	_, ok := Reach(Entry(fn), func(x Node) bool { return x == n }, Query{BlockEdge: func(x Edge) bool { return x == e }})
	return !ok
}

// InstrDominates reports whether every path from entry to n passes a.
func InstrDominates(fn *ssa.Function, a ssa.Instruction, n Node) bool {
	if a == n.Instr() {
		return true
	}
	_, ok := Reach(Entry(fn), func(x Node) bool { return x == n }, Query{BlockNode: IsInstr(a)})
	return !ok
}

// IsReturn is a target predicate matching function exits (return or panic).
func IsReturn(n Node) bool {
	switch n.Instr().(type) {
	case *ssa.Return:
		return true
	}
	return false
}

// IsExit matches returns and panics.
func IsExit(n Node) bool {
	switch x := n.Instr().(type) {
	case *ssa.Return:
		return true
	case *ssa.Panic:
		return !syntheticSelectPanic(x)
	}
	return false
}

// syntheticSelectPanic: the panic go/ssa emits behind the case dispatch of a
// blocking select ("blocking select matched no case"). It is not reachable:
// a blocking select always matches one of its cases.
func syntheticSelectPanic(p *ssa.Panic) bool {
	mi, ok := p.X.(*ssa.MakeInterface)
	if !ok {
		return false
	}
	c, ok := mi.X.(*ssa.Const)
	return ok && c.Value != nil && c.Value.Kind() == constant.String && constant.StringVal(c.Value) == "blocking select matched no case"
}

// CondEdges returns the (true, false) edges leaving an If instruction.
func CondEdges(ifi *ssa.If) (Edge, Edge) {
	b := ifi.Block()
	return Edge{b, b.Succs[0]}, Edge{b, b.Succs[1]}
}

// Loops: a block is a loop head if it has a predecessor it dominates.
func LoopHeads(fn *ssa.Function) []*ssa.BasicBlock {
	var out []*ssa.BasicBlock
	for _, b := range fn.Blocks {
		for _, p := range b.Preds {
			if b.Dominates(p) {
				out = append(out, b)
				break
			}
		}
	}
	return out
}

// InLoop reports whether instruction position n lies on a cycle of the CFG.
func InLoop(n Node) bool {
	_, ok := Reach(n, func(x Node) bool { return x == n }, Query{})
	return ok
}

// AllInstrs calls f for every instruction of fn (not descending into
// anonymous functions).
func AllInstrs(fn *ssa.Function, f func(Node, ssa.Instruction)) {
	for _, b := range fn.Blocks {
		for i, in := range b.Instrs {
			f(Node{b, i}, in)
		}
	}
}

// WithAnon calls f for fn and all functions nested in it.
func WithAnon(fn *ssa.Function, f func(*ssa.Function)) {
	f(fn)
	for _, a := range fn.AnonFuncs {
		WithAnon(a, f)
	}
}

// PosOf returns the best source position for an instruction.
func PosOf(in ssa.Instruction) token.Pos {
	if in == nil {
		return token.NoPos
	}
	if p := in.Pos(); p.IsValid() {
		return p
	}
	if v, ok := in.(ssa.Value); ok {
		for _, r := range *v.Referrers() {
			if p := r.Pos(); p.IsValid() {
				return p
			}
		}
	}
	// fall back to any positioned instruction of the block
	for _, x := range in.Block().Instrs {
		if p := x.Pos(); p.IsValid() {
			return p
		}
	}
	return in.Parent().Pos()
}

// StaticCalleeName returns "pkgpath.Recv.Name" for a statically resolved
// call, or "" if the callee is dynamic.
func StaticCalleeName(c *ssa.CallCommon) string {
	if c.IsInvoke() {
		return InvokeName(c)
	}
	if f := c.StaticCallee(); f != nil {
		return FuncName(f)
	}
	if b, ok := c.Value.(*ssa.Builtin); ok {
		return "builtin." + b.Name()
	}
	return ""
}

// InvokeName names an interface method call "pkgpath.Iface.Method".
func InvokeName(c *ssa.CallCommon) string {
	if !c.IsInvoke() {
		return ""
	}
	m := c.Method
	recv := c.Value.Type()
	name := types.TypeString(recv, nil)
	return name + "." + m.Name()
}

// FuncName renders a function as pkgpath.Name or (pkgpath.Recv).Name.
func FuncName(f *ssa.Function) string {
	if f == nil {
		return ""
	}
	if f.Signature.Recv() != nil {
		rt := f.Signature.Recv().Type()
		if p, ok := rt.(*types.Pointer); ok {
			rt = p.Elem()
		}
		return types.TypeString(rt, nil) + "." + f.Name()
	}
	if f.Pkg != nil {
		return f.Pkg.Pkg.Path() + "." + f.Name()
	}
	if f.Object() != nil && f.Object().Pkg() != nil {
		return f.Object().Pkg().Path() + "." + f.Name()
	}
	return f.Name()
}

// CallOf returns the CallCommon of a call-like instruction.
func CallOf(in ssa.Instruction) *ssa.CallCommon {
	switch c := in.(type) {
	case *ssa.Call:
		return &c.Call
	case *ssa.Go:
		return &c.Call
	case *ssa.Defer:
		return &c.Call
	}
	return nil
}
