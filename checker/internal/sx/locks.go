package sx

import (
	"fmt"
	"go/types"
	"sort"
	"strings"

	"golang.org/x/tools/go/ssa"
)

// LockOp describes a mutex operation.
type LockOp struct {
	Lock    string // lock identity: "<field>@<base origins>" or "local:<name>"
	Field   string // bare field / variable name
	Acquire bool
	Read    bool // RLock / RUnlock
}

// ClassifyLockOp recognises calls of sync.Mutex / sync.RWMutex methods.
func ClassifyLockOp(c *ssa.CallCommon) (LockOp, bool) {
	f := c.StaticCallee()
	if f == nil || f.Signature.Recv() == nil || len(c.Args) == 0 {
		// bound method value (mut.Unlock passed as func) is not a call here
		return LockOp{}, false
	}
	rt := f.Signature.Recv().Type()
	if p, ok := rt.(*types.Pointer); ok {
		rt = p.Elem()
	}
	n, ok := rt.(*types.Named)
	if !ok || n.Obj().Pkg() == nil || n.Obj().Pkg().Path() != "sync" {
		return LockOp{}, false
	}
	if n.Obj().Name() != "Mutex" && n.Obj().Name() != "RWMutex" {
		return LockOp{}, false
	}
	var op LockOp
	switch f.Name() {
	case "Lock":
		op.Acquire = true
	case "Unlock":
	case "RLock":
		op.Acquire, op.Read = true, true
	case "RUnlock":
		op.Read = true
	default:
		return LockOp{}, false
	}
	if al, ok := c.Args[0].(*ssa.Alloc); ok && al.Heap {
		// a local mutex whose address escapes is released by other goroutines
		// (hand-over-hand protocol, e.g. the per-connection handler mutex):
		// it is a semaphore, not a scoped lock, and is not tracked here.
		return LockOp{}, false
	}
	op.Lock, op.Field = LockIdentity(c.Args[0])
	return op, true
}

// LockIdentity names the mutex an address denotes.
func LockIdentity(addr ssa.Value) (id, field string) {
	switch a := addr.(type) {
	case *ssa.FieldAddr:
		f := structField(a.X.Type(), a.Field)
		name := "?"
		if f != nil {
			name = f.Name()
		}
		return name + "@" + OriginsString(Origins(a.X)), name
	case *ssa.Alloc:
		return "local:" + a.Comment + "@" + a.Parent().Name(), a.Comment
	case *ssa.FreeVar:
		if b := freeVarBinding(a); b != nil {
			return LockIdentity(b)
		}
		return "freevar:" + a.Name(), a.Name()
	}
	os := Origins(addr)
	// pointer loaded from a field (e.g. ctx.mut): name it by that field
	if o, ok := Single(os); ok && o.Kind == KField && o.Field != nil {
		return "ptr:" + o.Field.Name() + "@" + OriginsString(o.Base), o.Field.Name()
	}
	return "expr:" + OriginsString(os), "?"
}

// Held is one lock in a lock state.
type Held struct {
	Lock  string
	Field string
	Read  bool
}

// LockState is the analysis result for one function. The analysis is
// path-sensitive to the extent that a block may be entered with several
// distinct lock states (conditional locking with a deferred unlock); queries
// answer "held on every path" (HeldAt) or "held on some path" (MayHeldAt).
type LockState struct {
	Fn        *ssa.Function
	in        map[*ssa.BasicBlock][]string
	Conflicts []string // unbalanced releases, state explosion
	// EntryHeld lists locks the function releases without ever acquiring
	// them: they are taken to be held by the caller on entry.
	EntryHeld []Held
	unheld    []Held
	// DeferredCalls lists deferred non-lock calls with the lock state they
	// run under (at function exit, after later-registered defers ran).
	DeferredCalls []DeferredCall
}

// DeferredCall is a deferred call evaluated at a RunDefers point.
type DeferredCall struct {
	Defer *ssa.Defer
	At    ssa.Instruction // the RunDefers instruction
	Held  []Held
}

type lstate struct {
	held   []Held   // multiset, sorted
	defers []string // stack of "U<lock><r|w>" / "C:<idx>"
}

func (s lstate) key() string {
	var h []string
	for _, x := range s.held {
		m := "W"
		if x.Read {
			m = "R"
		}
		h = append(h, x.Lock+"\x1f"+x.Field+"\x1f"+m)
	}
	return strings.Join(h, "\x1e") + "\x1d" + strings.Join(s.defers, "\x1e")
}

func parseState(k string) lstate {
	var s lstate
	parts := strings.SplitN(k, "\x1d", 2)
	if parts[0] != "" {
		for _, h := range strings.Split(parts[0], "\x1e") {
			f := strings.Split(h, "\x1f")
			s.held = append(s.held, Held{Lock: f[0], Field: f[1], Read: f[2] == "R"})
		}
	}
	if len(parts) > 1 && parts[1] != "" {
		s.defers = strings.Split(parts[1], "\x1e")
	}
	return s
}

func (s *lstate) acquire(op LockOp) {
	s.held = append(s.held, Held{Lock: op.Lock, Field: op.Field, Read: op.Read})
	sort.Slice(s.held, func(i, j int) bool {
		if s.held[i].Lock != s.held[j].Lock {
			return s.held[i].Lock < s.held[j].Lock
		}
		return !s.held[i].Read && s.held[j].Read
	})
}

func (s *lstate) release(lock string, read bool) bool {
	for i, h := range s.held {
		if h.Lock == lock && h.Read == read {
			s.held = append(s.held[:i:i], s.held[i+1:]...)
			return true
		}
	}
	return false
}

const maxStatesPerBlock = 12

// AnalyzeLocks runs the forward lock-state dataflow over fn. Closures and
// goroutines start with the empty state.
func AnalyzeLocks(fn *ssa.Function) *LockState {
	// a function literal that is only ever called, synchronously, at one place
	// (`func() {...}()`, or a literal handed to a helper that was inlined) runs
	// under the locks held there
	var inherited []Held
	if site := soleDirectCall(fn); site != nil {
		inherited = AnalyzeLocks(site.Parent()).HeldAt(NodeOf(site))
	}
	ls := analyzeLocks(fn, inherited)
	if len(inherited) > 0 {
		ls.EntryHeld = inherited
	}
	if len(ls.unheld) == 0 {
		return ls
	}
	// A function that only releases a lock it never acquires finishes a
	// critical section its caller (or another goroutine) opened: the lock is
	// held on entry. Anything else stays a conflict.
	acquired := map[string]bool{}
	AllInstrs(fn, func(_ Node, in ssa.Instruction) {
		if cc := CallOf(in); cc != nil {
			if op, ok := ClassifyLockOp(cc); ok && op.Acquire {
				acquired[op.Lock] = true
			}
		}
	})
	var entry []Held
	seen := map[string]bool{}
	for _, h := range ls.unheld {
		if acquired[h.Lock] || strings.HasPrefix(h.Lock, "local:") {
			return ls
		}
		k := fmt.Sprintf("%s/%v", h.Lock, h.Read)
		if !seen[k] {
			seen[k] = true
			entry = append(entry, h)
		}
	}
	ls2 := analyzeLocks(fn, append(append([]Held{}, inherited...), entry...))
	ls2.EntryHeld = append(append([]Held{}, inherited...), entry...)
	return ls2
}

// soleDirectCall returns the only use of a function literal when that use is
// a plain call (not go, not defer) in its parent.
func soleDirectCall(fn *ssa.Function) *ssa.Call {
	parent := fn.Parent()
	if parent == nil {
		return nil
	}
	isFn := func(v ssa.Value) bool {
		if v == ssa.Value(fn) {
			return true
		}
		mc, ok := v.(*ssa.MakeClosure)
		return ok && mc.Fn == ssa.Value(fn)
	}
	var site *ssa.Call
	n, others := 0, 0
	WithAnon(parent, func(g *ssa.Function) {
		AllInstrs(g, func(_ Node, in ssa.Instruction) {
			if c, ok := in.(*ssa.Call); ok && isFn(c.Call.Value) {
				n++
				if g == parent {
					site = c
				}
				for _, a := range c.Call.Args {
					if isFn(a) {
						others++
					}
				}
				return
			}
			if _, isMC := in.(*ssa.MakeClosure); isMC {
				return
			}
			for _, op := range in.Operands(nil) {
				if *op != nil && isFn(*op) {
					others++
				}
			}
		})
	})
	if n != 1 || others != 0 {
		return nil
	}
	return site
}

func analyzeLocks(fn *ssa.Function, entry []Held) *LockState {
	ls := &LockState{Fn: fn, in: map[*ssa.BasicBlock][]string{}}
	if len(fn.Blocks) == 0 {
		return ls
	}
	var deferIdx []*ssa.Defer
	type item struct {
		b *ssa.BasicBlock
		k string
	}
	has := func(b *ssa.BasicBlock, k string) bool {
		for _, x := range ls.in[b] {
			if x == k {
				return true
			}
		}
		return false
	}
	st0 := lstate{}
	for _, h := range entry {
		st0.acquire(LockOp{Lock: h.Lock, Field: h.Field, Read: h.Read})
	}
	k0 := st0.key()
	ls.in[fn.Blocks[0]] = []string{k0}
	work := []item{{fn.Blocks[0], k0}}
	reported := map[string]bool{}
	for len(work) > 0 {
		it := work[0]
		work = work[1:]
		st := parseState(it.k)
		for _, in := range it.b.Instrs {
			ls.step(&st, in, &deferIdx, true, reported)
		}
		out := st.key()
		for _, s := range it.b.Succs {
			if has(s, out) {
				continue
			}
			// states that differ only in registered deferred non-lock calls are merged
			merged := false
			for i, prev := range ls.in[s] {
				if m, ok := mergeDeferredCalls(prev, out); ok {
					merged = true
					if m != prev {
						ls.in[s][i] = m
						work = append(work, item{s, m})
					}
					break
				}
			}
			if merged {
				continue
			}
			if len(ls.in[s]) >= maxStatesPerBlock {
				msg := fmt.Sprintf("block %d is entered with more than %d distinct lock states (a lock acquired in a loop without release?)", s.Index, maxStatesPerBlock)
				if !reported[msg] {
					reported[msg] = true
					ls.Conflicts = append(ls.Conflicts, msg)
				}
				continue
			}
			ls.in[s] = append(ls.in[s], out)
			work = append(work, item{s, out})
		}
	}
	// de-duplicate deferred-call records
	seen := map[string]bool{}
	var dcs []DeferredCall
	for _, d := range ls.DeferredCalls {
		k := fmt.Sprintf("%p/%p/%s", d.Defer, d.At, HeldString(d.Held))
		if !seen[k] {
			seen[k] = true
			dcs = append(dcs, d)
		}
	}
	ls.DeferredCalls = dcs
	return ls
}

func (ls *LockState) step(st *lstate, in ssa.Instruction, deferIdx *[]*ssa.Defer, record bool, reported map[string]bool) {
	conflict := func(msg string) {
		if record && !reported[msg] {
			reported[msg] = true
			ls.Conflicts = append(ls.Conflicts, msg)
		}
	}
	switch x := in.(type) {
	case *ssa.Call:
		if op, ok := ClassifyLockOp(&x.Call); ok {
			if op.Acquire {
				st.acquire(op)
			} else if !st.release(op.Lock, op.Read) {
				conflict("release of " + op.Lock + " that is not held on some path")
				if record {
					ls.unheld = append(ls.unheld, Held{Lock: op.Lock, Field: op.Field, Read: op.Read})
				}
			}
		}
	case *ssa.Defer:
		if op, ok := ClassifyLockOp(&x.Call); ok && !op.Acquire {
			m := "w"
			if op.Read {
				m = "r"
			}
			st.defers = append(st.defers, "U\x1f"+op.Lock+"\x1f"+m)
		} else {
			idx := -1
			for i, d := range *deferIdx {
				if d == x {
					idx = i
				}
			}
			if idx < 0 {
				*deferIdx = append(*deferIdx, x)
				idx = len(*deferIdx) - 1
			}
			tag := fmt.Sprintf("C:%d", idx)
			dup := false
			for _, d := range st.defers {
				if d == tag {
					dup = true
				}
			}
			if !dup {
				st.defers = append(st.defers, tag)
			}
		}
	case *ssa.RunDefers:
		for i := len(st.defers) - 1; i >= 0; i-- {
			d := st.defers[i]
			if strings.HasPrefix(d, "U\x1f") {
				f := strings.Split(d, "\x1f")
				lock := f[1]
				if !st.release(lock, f[2] == "r") {
					conflict("deferred release of " + lock + " that is not held at exit on some path")
					if record {
						fld := lock
						if i := strings.IndexAny(fld, "@"); i >= 0 {
							fld = fld[:i]
						}
						ls.unheld = append(ls.unheld, Held{Lock: lock, Field: strings.TrimPrefix(fld, "ptr:"), Read: f[2] == "r"})
					}
				}
			} else if record {
				var idx int
				fmt.Sscanf(d, "C:%d", &idx)
				ls.DeferredCalls = append(ls.DeferredCalls, DeferredCall{Defer: (*deferIdx)[idx], At: x, Held: append([]Held{}, st.held...)})
			}
		}
		st.defers = nil
	}
}

func (ls *LockState) statesAt(n Node) [][]Held {
	var out [][]Held
	var dummy []*ssa.Defer
	for _, k := range ls.in[n.B] {
		st := parseState(k)
		for i := 0; i < n.I; i++ {
			ls.step(&st, n.B.Instrs[i], &dummy, false, nil)
		}
		out = append(out, st.held)
	}
	return out
}

// HeldAt returns the locks held on *every* path just before instruction n.
func (ls *LockState) HeldAt(n Node) []Held {
	sts := ls.statesAt(n)
	if len(sts) == 0 {
		return nil
	}
	out := append([]Held{}, sts[0]...)
	for _, st := range sts[1:] {
		var keep []Held
		for _, h := range out {
			for _, x := range st {
				if x == h {
					keep = append(keep, h)
					break
				}
			}
		}
		out = keep
	}
	return out
}

// MayHeldAt returns the locks held on *some* path just before instruction n.
func (ls *LockState) MayHeldAt(n Node) []Held {
	var out []Held
	for _, st := range ls.statesAt(n) {
		for _, h := range st {
			dup := false
			for _, x := range out {
				if x == h {
					dup = true
				}
			}
			if !dup {
				out = append(out, h)
			}
		}
	}
	return out
}

// Reachable reports whether the block of n is reachable from entry.
func (ls *LockState) Reachable(n Node) bool {
	return len(ls.in[n.B]) > 0
}

// Holds reports whether a lock with the given field name is held (any base).
func Holds(hs []Held, field string, needWrite bool) bool {
	for _, h := range hs {
		if h.Field == field && (!needWrite || !h.Read) {
			return true
		}
	}
	return false
}

// HeldString renders a lock set.
func HeldString(hs []Held) string {
	if len(hs) == 0 {
		return "{}"
	}
	var s []string
	for _, h := range hs {
		m := "W"
		if h.Read {
			m = "R"
		}
		s = append(s, h.Field+":"+m)
	}
	return "{" + strings.Join(s, ",") + "}"
}

// mergeDeferredCalls reconciles two states that differ only in which
// deferred *non-lock* calls have been registered (a defer inside a loop or a
// branch): the result carries the union, in the order of the longer stack.
func mergeDeferredCalls(a, b string) (string, bool) {
	sa, sb := parseState(a), parseState(b)
	if (lstate{held: sa.held}).key() != (lstate{held: sb.held}).key() {
		return "", false
	}
	strip := func(ds []string) []string {
		var out []string
		for _, d := range ds {
			if !strings.HasPrefix(d, "C:") {
				out = append(out, d)
			}
		}
		return out
	}
	if strings.Join(strip(sa.defers), "\x1e") != strings.Join(strip(sb.defers), "\x1e") {
		return "", false
	}
	long, short := sa, sb
	if len(sb.defers) > len(sa.defers) {
		long, short = sb, sa
	}
	for _, d := range short.defers {
		found := false
		for _, x := range long.defers {
			if x == d {
				found = true
			}
		}
		if !found {
			long.defers = append(long.defers, d)
		}
	}
	return long.key(), true
}
