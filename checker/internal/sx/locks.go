package sx

import (
	"fmt"
	"go/types"
	"sort"
	"strings"

	"golang.org/x/tools/go/ssa"
)

// LockOp describes a mutex operation.
type LockOp struct {
	Lock    string // lock identity: "<field>@<base origins>" or "local:<name>"
	Field   string // bare field / variable name
	Acquire bool
	Read    bool // RLock / RUnlock
}

// ClassifyLockOp recognises calls of sync.Mutex / sync.RWMutex methods.
func ClassifyLockOp(c *ssa.CallCommon) (LockOp, bool) {
	f := c.StaticCallee()
	if f == nil || f.Signature.Recv() == nil || len(c.Args) == 0 {
		// bound method value (mut.Unlock passed as func) is not a call here
		return LockOp{}, false
	}
	rt := f.Signature.Recv().Type()
	if p, ok := rt.(*types.Pointer); ok {
		rt = p.Elem()
	}
	n, ok := rt.(*types.Named)
	if !ok || n.Obj().Pkg() == nil || n.Obj().Pkg().Path() != "sync" {
		return LockOp{}, false
	}
	if n.Obj().Name() != "Mutex" && n.Obj().Name() != "RWMutex" {
		return LockOp{}, false
	}
	var op LockOp
	switch f.Name() {
	case "Lock":
		op.Acquire = true
	case "Unlock":
	case "RLock":
		op.Acquire, op.Read = true, true
	case "RUnlock":
		op.Read = true
	default:
		return LockOp{}, false
	}
	op.Lock, op.Field = LockIdentity(c.Args[0])
	return op, true
}

// LockIdentity names the mutex an address denotes.
func LockIdentity(addr ssa.Value) (id, field string) {
	switch a := addr.(type) {
	case *ssa.FieldAddr:
		f := structField(a.X.Type(), a.Field)
		name := "?"
		if f != nil {
			name = f.Name()
		}
		return name + "@" + OriginsString(Origins(a.X)), name
	case *ssa.Alloc:
		return "local:" + a.Comment + "@" + a.Parent().Name(), a.Comment
	case *ssa.FreeVar:
		if b := freeVarBinding(a); b != nil {
			return LockIdentity(b)
		}
		return "freevar:" + a.Name(), a.Name()
	}
	os := Origins(addr)
	// pointer loaded from a field (e.g. ctx.mut): name it by that field
	if o, ok := Single(os); ok && o.Kind == KField && o.Field != nil {
		return "ptr:" + o.Field.Name() + "@" + OriginsString(o.Base), o.Field.Name()
	}
	return "expr:" + OriginsString(os), "?"
}

// Held is one lock in a lock state.
type Held struct {
	Lock  string
	Field string
	Read  bool
}

// LockState is the analysis result for one function.
type LockState struct {
	Fn        *ssa.Function
	in        map[*ssa.BasicBlock]string
	Conflicts []string // joins with unequal states, unbalanced releases
	// DeferredCalls lists deferred non-lock calls with the lock state they
	// run under (at function exit, after later-registered defers ran).
	DeferredCalls []DeferredCall
}

// DeferredCall is a deferred call evaluated at a RunDefers point.
type DeferredCall struct {
	Defer *ssa.Defer
	At    ssa.Instruction // the RunDefers instruction
	Held  []Held
}

type lstate struct {
	held   []Held   // multiset, sorted
	defers []string // stack of "U:<lock>:<r|w>" / "C:<idx>"
}

func (s lstate) key() string {
	var h []string
	for _, x := range s.held {
		m := "W"
		if x.Read {
			m = "R"
		}
		h = append(h, x.Lock+"\x1f"+x.Field+"\x1f"+m)
	}
	return strings.Join(h, "\x1e") + "\x1d" + strings.Join(s.defers, "\x1e")
}

func parseState(k string) lstate {
	var s lstate
	parts := strings.SplitN(k, "\x1d", 2)
	if parts[0] != "" {
		for _, h := range strings.Split(parts[0], "\x1e") {
			f := strings.Split(h, "\x1f")
			s.held = append(s.held, Held{Lock: f[0], Field: f[1], Read: f[2] == "R"})
		}
	}
	if len(parts) > 1 && parts[1] != "" {
		s.defers = strings.Split(parts[1], "\x1e")
	}
	return s
}

func (s *lstate) acquire(op LockOp) {
	s.held = append(s.held, Held{Lock: op.Lock, Field: op.Field, Read: op.Read})
	sort.Slice(s.held, func(i, j int) bool {
		if s.held[i].Lock != s.held[j].Lock {
			return s.held[i].Lock < s.held[j].Lock
		}
		return !s.held[i].Read && s.held[j].Read
	})
}

func (s *lstate) release(lock string, read bool) bool {
	for i, h := range s.held {
		if h.Lock == lock && h.Read == read {
			s.held = append(s.held[:i:i], s.held[i+1:]...)
			return true
		}
	}
	return false
}

// AnalyzeLocks runs the forward lock-state dataflow over fn. Closures and
// goroutines start with the empty state.
func AnalyzeLocks(fn *ssa.Function) *LockState {
	ls := &LockState{Fn: fn, in: map[*ssa.BasicBlock]string{}}
	if len(fn.Blocks) == 0 {
		return ls
	}
	var deferIdx []*ssa.Defer
	ls.in[fn.Blocks[0]] = lstate{}.key()
	work := []*ssa.BasicBlock{fn.Blocks[0]}
	done := map[*ssa.BasicBlock]bool{}
	for len(work) > 0 {
		b := work[0]
		work = work[1:]
		if done[b] {
			continue
		}
		done[b] = true
		st := parseState(ls.in[b])
		for _, in := range b.Instrs {
			ls.step(&st, in, &deferIdx, true)
		}
		out := st.key()
		for _, s := range b.Succs {
			if prev, ok := ls.in[s]; ok {
				if prev != out {
					ls.Conflicts = append(ls.Conflicts, fmt.Sprintf("block %d entered with different lock states %s and %s", s.Index, HeldString(parseState(prev).held), HeldString(parseState(out).held)))
				}
				continue
			}
			ls.in[s] = out
			work = append(work, s)
		}
	}
	return ls
}

func (ls *LockState) step(st *lstate, in ssa.Instruction, deferIdx *[]*ssa.Defer, record bool) {
	switch x := in.(type) {
	case *ssa.Call:
		if op, ok := ClassifyLockOp(&x.Call); ok {
			if op.Acquire {
				st.acquire(op)
			} else if !st.release(op.Lock, op.Read) && record {
				ls.Conflicts = append(ls.Conflicts, "release of "+op.Lock+" that is not held")
			}
		}
	case *ssa.Defer:
		if op, ok := ClassifyLockOp(&x.Call); ok && !op.Acquire {
			m := "w"
			if op.Read {
				m = "r"
			}
			st.defers = append(st.defers, "U\x1f"+op.Lock+"\x1f"+m)
		} else {
			idx := -1
			for i, d := range *deferIdx {
				if d == x {
					idx = i
				}
			}
			if idx < 0 {
				*deferIdx = append(*deferIdx, x)
				idx = len(*deferIdx) - 1
			}
			st.defers = append(st.defers, fmt.Sprintf("C:%d", idx))
		}
	case *ssa.RunDefers:
		for i := len(st.defers) - 1; i >= 0; i-- {
			d := st.defers[i]
			if strings.HasPrefix(d, "U\x1f") {
				f := strings.Split(d, "\x1f")
				lock := f[1]
				if !st.release(lock, f[2] == "r") && record {
					ls.Conflicts = append(ls.Conflicts, "deferred release of "+lock+" that is not held at exit")
				}
			} else if record {
				var idx int
				fmt.Sscanf(d, "C:%d", &idx)
				ls.DeferredCalls = append(ls.DeferredCalls, DeferredCall{Defer: (*deferIdx)[idx], At: x, Held: append([]Held{}, st.held...)})
			}
		}
		st.defers = nil
	}
}

// HeldAt returns the locks held just before instruction n executes.
func (ls *LockState) HeldAt(n Node) []Held {
	k, ok := ls.in[n.B]
	if !ok {
		return nil // unreachable block
	}
	st := parseState(k)
	var dummy []*ssa.Defer
	for i := 0; i < n.I; i++ {
		ls.step(&st, n.B.Instrs[i], &dummy, false)
	}
	return st.held
}

// Reachable reports whether the block of n is reachable from entry.
func (ls *LockState) Reachable(n Node) bool {
	_, ok := ls.in[n.B]
	return ok
}

// Holds reports whether a lock with the given field name is held (any base).
func Holds(hs []Held, field string, needWrite bool) bool {
	for _, h := range hs {
		if h.Field == field && (!needWrite || !h.Read) {
			return true
		}
	}
	return false
}

// HeldString renders a lock set.
func HeldString(hs []Held) string {
	if len(hs) == 0 {
		return "{}"
	}
	var s []string
	for _, h := range hs {
		m := "W"
		if h.Read {
			m = "R"
		}
		s = append(s, h.Field+":"+m)
	}
	return "{" + strings.Join(s, ",") + "}"
}
