// Package selftest validates the checker itself: every rule must fire on a
// mutant of the repository that breaks it (applied as an in-memory overlay,
// analysed in a fresh process) and must stay silent on behaviour-preserving
// edits.
package selftest

import (
	"encoding/json"
	"fmt"
	"os"
	"os/exec"
	"path/filepath"
	"sort"
	"strings"
	"sync"
)

// Mutant is one entry of testdata/mutants/*.json.
type Mutant struct {
	Name      string `json:"name"`
	Property  string `json:"property"`
	Kind      string `json:"kind"` // "mutant" (must be detected) or "benign" (must stay silent)
	File      string `json:"file"` // relative to the repository root
	Old       string `json:"old"`
	New       string `json:"new"`
	Edits     []Edit `json:"edits,omitempty"` // further edits (same or other files)
	Rule      string `json:"expect_rule,omitempty"`
	Construct string `json:"expect_construct,omitempty"` // substring
	Why       string `json:"why,omitempty"`
	Patch     string `json:"patch,omitempty"` // unified diff (absolute path) instead of File/Old/New
}

// Edit is an additional replacement.
type Edit struct {
	File string `json:"file"`
	Old  string `json:"old"`
	New  string `json:"new"`
}

// Config for Run.
type Config struct {
	Property string
	Repo     string
	Verif    string
	Baseline map[string]bool // rule\x00construct violated on the unmodified tree
}

// Failure is a self-test failure (a checker defect, not a repository defect).
type Failure struct {
	Name   string `json:"name"`
	Detail string `json:"detail"`
}

// Summary is recorded in the evidence.
type Summary struct {
	MutantsRun      int       `json:"mutants_run"`
	MutantsDetected int       `json:"mutants_detected"`
	BenignRun       int       `json:"benign_edits_run"`
	BenignSilent    int       `json:"benign_edits_silent"`
	Skipped         []string  `json:"skipped_stale_anchor,omitempty"`
	Detail          []string  `json:"detail"`
	Failures        []Failure `json:"failures,omitempty"`
}

// LoadMutants reads the corpus.
func LoadMutants(verif string) ([]Mutant, error) {
	files, _ := filepath.Glob(filepath.Join(verif, "checker", "testdata", "mutants", "*.json"))
	sort.Strings(files)
	var out []Mutant
	for _, f := range files {
		b, err := os.ReadFile(f)
		if err != nil {
			return nil, err
		}
		var ms []Mutant
		if err := json.Unmarshal(b, &ms); err != nil {
			return nil, fmt.Errorf("%s: %w", f, err)
		}
		out = append(out, ms...)
	}
	// every stored seeded change is a mutant of the property it breaks
	metas, _ := filepath.Glob(filepath.Join(verif, "seeded", "*", "meta.json"))
	sort.Strings(metas)
	for _, mf := range metas {
		b, err := os.ReadFile(mf)
		if err != nil {
			return nil, err
		}
		var meta struct {
			ID     string `json:"id"`
			Breaks string `json:"breaks_property"`
			Needs  string `json:"needs_to_manifest"`
		}
		if err := json.Unmarshal(b, &meta); err != nil {
			return nil, fmt.Errorf("%s: %w", mf, err)
		}
		out = append(out, Mutant{Name: "seeded-" + meta.ID, Property: meta.Breaks, Kind: "mutant", Patch: filepath.Join(filepath.Dir(mf), "patch.diff"), Why: meta.Needs})
	}
	return out, nil
}

// patchOverlay applies a unified diff to copies of the files it names and
// returns the patched contents keyed by their path in the repository.
func patchOverlay(repo, patch string) (map[string]string, bool, string) {
	pb, err := os.ReadFile(patch)
	if err != nil {
		return nil, false, err.Error()
	}
	files := map[string]bool{}
	for _, ln := range strings.Split(string(pb), "\n") {
		for _, pre := range []string{"--- a/", "+++ b/"} {
			if strings.HasPrefix(ln, pre) {
				files[strings.TrimSpace(strings.TrimPrefix(ln, pre))] = true
			}
		}
	}
	if len(files) == 0 {
		return nil, false, "no files named in the patch"
	}
	dir, err := os.MkdirTemp("", "gorumscheck-patch-")
	if err != nil {
		return nil, false, err.Error()
	}
	defer os.RemoveAll(dir)
	for f := range files {
		b, err := os.ReadFile(filepath.Join(repo, f))
		if err != nil {
			continue // a file the patch creates
		}
		dst := filepath.Join(dir, f)
		if err := os.MkdirAll(filepath.Dir(dst), 0o755); err != nil {
			return nil, false, err.Error()
		}
		if err := os.WriteFile(dst, b, 0o644); err != nil {
			return nil, false, err.Error()
		}
	}
	cmd := exec.Command("git", "apply", patch)
	cmd.Dir = dir
	cmd.Env = append(os.Environ(), "GIT_DIR=/nonexistent", "GIT_CEILING_DIRECTORIES="+filepath.Dir(dir))
	if out, err := cmd.CombinedOutput(); err != nil {
		return nil, false, "patch does not apply to the current tree: " + firstLines(string(out), 2)
	}
	content := map[string]string{}
	for f := range files {
		b, err := os.ReadFile(filepath.Join(dir, f))
		if err != nil {
			// the patch deletes the file: an overlay cannot remove it, but it can empty it
			orig, err2 := os.ReadFile(filepath.Join(repo, f))
			if err2 != nil || !strings.HasSuffix(f, ".go") {
				return nil, false, "patch deletes " + f + ": not expressible as an overlay"
			}
			pkg := ""
			for _, ln := range strings.Split(string(orig), "\n") {
				if strings.HasPrefix(ln, "package ") {
					pkg = strings.Fields(ln)[1]
					break
				}
			}
			if pkg == "" {
				return nil, false, "patch deletes " + f + ": package clause not found"
			}
			content[filepath.Join(repo, f)] = "package " + pkg + "\n"
			continue
		}
		content[filepath.Join(repo, f)] = string(b)
	}
	return content, true, ""
}

// Run executes the corpus entries of one property.
func Run(cfg Config) Summary {
	var sum Summary
	all, err := LoadMutants(cfg.Verif)
	if err != nil {
		sum.Failures = append(sum.Failures, Failure{"corpus", err.Error()})
		return sum
	}
	var ms []Mutant
	for _, m := range all {
		if m.Property == cfg.Property {
			ms = append(ms, m)
		}
	}
	// behaviour-preserving refactorings (stored patches) must leave every property's check silent
	bens, _ := filepath.Glob(filepath.Join(cfg.Verif, "benign", "*", "patch.diff"))
	sort.Strings(bens)
	for _, b := range bens {
		ms = append(ms, Mutant{Name: "refactoring-" + filepath.Base(filepath.Dir(b)), Property: cfg.Property, Kind: "benign", Patch: b})
	}
	self, err := os.Executable()
	if err != nil {
		sum.Failures = append(sum.Failures, Failure{"self", err.Error()})
		return sum
	}
	tmp, err := os.MkdirTemp("", "gorumscheck-selftest-")
	if err != nil {
		sum.Failures = append(sum.Failures, Failure{"tmp", err.Error()})
		return sum
	}
	defer os.RemoveAll(tmp)

	// baseline: violations on the unmodified tree (known findings included)
	base := cfg.Baseline
	if base == nil {
		out, _ := exec.Command(self, "-prop", cfg.Property, "-tier", "quick", "-no-evidence", "-repo", cfg.Repo, "-verif", cfg.Verif).CombinedOutput()
		base = parseViolated(string(out))
	}

	type result struct {
		m       Mutant
		skipped bool
		out     string
		code    int
	}
	results := make([]result, len(ms))
	sem := make(chan struct{}, 12)
	var wg sync.WaitGroup
	for i, m := range ms {
		i, m := i, m
		wg.Add(1)
		go func() {
			defer wg.Done()
			sem <- struct{}{}
			defer func() { <-sem }()
			ov, ok, why := buildOverlay(cfg.Repo, m)
			if !ok {
				results[i] = result{m: m, skipped: true, out: why}
				return
			}
			b, _ := json.Marshal(ov)
			f := filepath.Join(tmp, fmt.Sprintf("ov-%d.json", i))
			_ = os.WriteFile(f, b, 0o644)
			cmd := exec.Command(self, "-prop", cfg.Property, "-tier", "quick", "-no-evidence", "-overlay", f, "-repo", cfg.Repo, "-verif", cfg.Verif)
			out, err := cmd.CombinedOutput()
			code := 0
			if ee, ok := err.(*exec.ExitError); ok {
				code = ee.ExitCode()
			} else if err != nil {
				code = 99
			}
			results[i] = result{m: m, out: string(out), code: code}
		}()
	}
	wg.Wait()
	for _, r := range results {
		m := r.m
		if r.skipped {
			sum.Skipped = append(sum.Skipped, m.Name+": "+r.out)
			if m.Patch != "" {
				// a stored seeded change that no longer applies must be refreshed, not silently dropped
				sum.Failures = append(sum.Failures, Failure{m.Name, "stored seeded change is stale: " + r.out})
			}
			continue
		}
		got := parseViolated(r.out)
		var fresh []string
		for k := range got {
			if !base[k] {
				fresh = append(fresh, strings.ReplaceAll(k, "\x00", " @ "))
			}
		}
		sort.Strings(fresh)
		switch m.Kind {
		case "benign":
			sum.BenignRun++
			undec := strings.Contains(r.out, "UNDECIDED ")
			if len(fresh) == 0 && !undec && r.code != 99 {
				sum.BenignSilent++
				sum.Detail = append(sum.Detail, "benign "+m.Name+": silent")
			} else {
				sum.Failures = append(sum.Failures, Failure{m.Name, fmt.Sprintf("behaviour-preserving edit raised %v (exit %d): %s", fresh, r.code, firstLines(r.out, 6))})
			}
		default:
			sum.MutantsRun++
			hit := false
			for k := range got {
				if base[k] {
					continue
				}
				parts := strings.SplitN(k, "\x00", 2)
				if (m.Rule == "" || parts[0] == m.Rule) && (m.Construct == "" || strings.Contains(parts[1], m.Construct)) {
					hit = true
				}
			}
			if hit {
				sum.MutantsDetected++
				sum.Detail = append(sum.Detail, fmt.Sprintf("mutant %s: detected by %v", m.Name, fresh))
			} else {
				sum.Failures = append(sum.Failures, Failure{m.Name, fmt.Sprintf("mutant not detected by rule %s (construct %q); new violations %v; exit %d; %s", m.Rule, m.Construct, fresh, r.code, firstLines(r.out, 6))})
			}
		}
	}
	sort.Strings(sum.Detail)
	return sum
}

func firstLines(s string, n int) string {
	ls := strings.Split(strings.TrimSpace(s), "\n")
	if len(ls) > n {
		ls = ls[:n]
	}
	return strings.Join(ls, " | ")
}

func parseViolated(out string) map[string]bool {
	m := map[string]bool{}
	for _, ln := range strings.Split(out, "\n") {
		if !strings.HasPrefix(ln, "VIOLATED rule=") {
			continue
		}
		rest := strings.TrimPrefix(ln, "VIOLATED rule=")
		i := strings.Index(rest, " construct=")
		j := strings.Index(rest, " site=")
		if i < 0 || j < i {
			continue
		}
		m[rest[:i]+"\x00"+rest[i+len(" construct="):j]] = true
	}
	return m
}

func buildOverlay(repo string, m Mutant) (map[string]string, bool, string) {
	if m.Patch != "" {
		return patchOverlay(repo, m.Patch)
	}
	edits := append([]Edit{{m.File, m.Old, m.New}}, m.Edits...)
	content := map[string]string{}
	for _, e := range edits {
		p := filepath.Join(repo, e.File)
		cur, ok := content[p]
		if !ok {
			b, err := os.ReadFile(p)
			if err != nil {
				return nil, false, err.Error()
			}
			cur = string(b)
		}
		if n := strings.Count(cur, e.Old); n != 1 {
			return nil, false, fmt.Sprintf("anchor text occurs %d times in %s (tree differs from the one the corpus was written for)", n, e.File)
		}
		content[p] = strings.Replace(cur, e.Old, e.New, 1)
	}
	return content, true, ""
}
