// Command gorumscheck decides the structural clauses of properties C01–C19
// of relab/gorums by static analysis of the repository's current source.
package main

import (
	"encoding/json"
	"flag"
	"fmt"
	"os"
	"path/filepath"
	"runtime/debug"
	"sort"
	"strconv"
	"strings"
	"time"

	"verif/checker/internal/core"
	"verif/checker/internal/norm"
	"verif/checker/internal/rules"
	"verif/checker/internal/selftest"
)

func main() {
	var (
		prop     = flag.String("prop", "", "property id (C01..C19) or 'all'")
		tier     = flag.String("tier", "quick", "quick|thorough")
		repo     = flag.String("repo", "/repo", "repository under analysis")
		verif    = flag.String("verif", "/verif", "verification directory (evidence, known findings)")
		overlay  = flag.String("overlay", "", "JSON file {path: replacement-content} applied as an in-memory overlay (self-test mutants)")
		noEv     = flag.Bool("no-evidence", false, "do not write evidence (used by self-test children)")
		list     = flag.Bool("list", false, "list properties")
		warm     = flag.Bool("warm", false, "load the repository once (warms the build cache) and exit")
		jsonOut  = flag.String("json", "", "write the obligation ledger as JSON to this file")
		selfOnly = flag.Bool("selftest-only", false, "run only the mutant self-test of the property")
		dumpBase = flag.Bool("dump-baseline", false, "print the shape of the runtime package (functions, struct fields) as the normaliser's baseline and exit")
		dumpNorm = flag.String("dump-normalised", "", "write the normalised source files into this directory and exit")
	)
	flag.Parse()
	start := time.Now()
	if *list {
		for _, id := range rules.IDs() {
			fmt.Println(id, rules.Registry[id].Title)
		}
		return
	}
	seed := int64(0)
	if s := os.Getenv("VERIF_SEED"); s != "" {
		if v, err := strconv.ParseInt(s, 10, 64); err == nil {
			seed = v
		}
	}
	var ov map[string][]byte
	if *overlay != "" {
		b, err := os.ReadFile(*overlay)
		if err != nil {
			fatal(2, "overlay: %v", err)
		}
		var m map[string]string
		if err := json.Unmarshal(b, &m); err != nil {
			fatal(2, "overlay: %v", err)
		}
		ov = map[string][]byte{}
		for k, v := range m {
			ov[k] = []byte(v)
		}
	}
	if *dumpBase {
		p, err := core.Load(core.LoadConfig{RepoDir: *repo, Patterns: []string{"."}})
		if err != nil {
			fatal(2, "load: %v", err)
		}
		b, err := norm.DumpBaseline(p.Pkg(""))
		if err != nil {
			fatal(2, "baseline: %v", err)
		}
		fmt.Println(string(b))
		return
	}
	if *dumpNorm != "" {
		_, ov2, notes, err := loadNormalised(core.LoadConfig{RepoDir: *repo, Overlay: ov})
		if err != nil {
			fatal(2, "load: %v", err)
		}
		for _, n := range notes {
			fmt.Println(n)
		}
		for name, b := range ov2 {
			if _, user := ov[name]; user && string(ov[name]) == string(b) {
				continue
			}
			_ = os.MkdirAll(*dumpNorm, 0o755)
			_ = os.WriteFile(filepath.Join(*dumpNorm, filepath.Base(name)), b, 0o644)
		}
		return
	}
	if *warm {
		p, err := core.Load(core.LoadConfig{RepoDir: *repo})
		if err != nil {
			fatal(2, "load: %v", err)
		}
		fmt.Printf("loaded %d packages, %d files\n", len(p.Pkgs), p.FileCount)
		return
	}
	ids := []string{*prop}
	if *prop == "all" {
		ids = rules.IDs()
	}
	exit := 0
	for _, id := range ids {
		r, ok := rules.Registry[id]
		if !ok {
			fatal(2, "unknown property %q", id)
		}
		code := runOne(id, r, *tier, *repo, *verif, ov, *noEv, *jsonOut, *selfOnly, seed, start)
		if code > exit || (code == 1) {
			if exit != 1 {
				exit = code
			}
		}
	}
	os.Exit(exit)
}

func runOne(id string, r rules.Entry, tier, repo, verif string, ov map[string][]byte, noEv bool, jsonOut string, selfOnly bool, seed int64, start time.Time) (code int) {
	var l *core.Ledger
	defer func() {
		if rec := recover(); rec != nil {
			fmt.Printf("UNDECIDED property=%s checker panic: %v\n%s\n", id, rec, debug.Stack())
			code = 2
		}
	}()
	lc := core.LoadConfig{RepoDir: repo, Overlay: ov, Tests: false}
	if tier == "thorough" && r.Examples {
		// the examples module is a separate Go module with its own committed generated file
		lc.Extra = []core.ExtraLoad{{Dir: filepath.Join(repo, "examples"), Patterns: []string{"./storage/proto"}}}
	}
	prog, _, normNotes, err := loadNormalised(lc)
	if err != nil {
		fmt.Printf("UNDECIDED property=%s load failure: %v\n", id, err)
		return 2
	}
	if len(prog.Pkgs) < 20 {
		fmt.Printf("UNDECIDED property=%s only %d packages loaded (floor 20)\n", id, len(prog.Pkgs))
		return 2
	}
	l = core.NewLedger(prog, id, tier)
	for _, nn := range normNotes {
		l.Note("normalisation: %s", nn)
	}
	if !selfOnly {
		r.Run(l)
	}
	if tier == "thorough" && ov == nil {
		if r.Thorough != nil && !selfOnly {
			r.Thorough(l)
		}
		st := selftest.Run(selftest.Config{Property: id, Repo: repo, Verif: verif})
		l.Extra["selftest"] = st
		for _, f := range st.Failures {
			l.Unknown(id+"-SELFTEST", f.Name, 0, f.Detail)
		}
	}
	if jsonOut != "" {
		b, _ := json.MarshalIndent(l.Obs, "", " ")
		_ = os.WriteFile(jsonOut, b, 0o644)
	}
	if noEv {
		// child of the self-test: print verdict lines only
		sort.SliceStable(l.Obs, func(i, j int) bool { return l.Obs[i].Rule+l.Obs[i].Construct < l.Obs[j].Rule+l.Obs[j].Construct })
		bad, und := 0, 0
		for _, o := range l.Obs {
			switch o.Status {
			case core.Violated:
				bad++
				fmt.Printf("VIOLATED rule=%s construct=%s site=%s :: %s\n", o.Rule, o.Construct, o.Site, o.Detail)
			case core.Undecided:
				und++
				fmt.Printf("UNDECIDED rule=%s construct=%s site=%s :: %s\n", o.Rule, o.Construct, o.Site, o.Detail)
			}
		}
		if bad > 0 {
			return 1
		}
		if und > 0 {
			return 2
		}
		return 0
	}
	findings, err := core.LoadFindings(filepath.Join(verif, "known_findings.json"))
	if err != nil {
		fmt.Printf("UNDECIDED property=%s cannot read known findings: %v\n", id, err)
		return 2
	}
	meta := r.Meta
	meta.CheckerCmd = strings.Join(os.Args, " ")
	res := l.Finish(verif, findings, start, seed, meta)
	return res.ExitCode
}

// loadNormalised loads the program and, while the runtime package contains
// unexported helpers or renamed declarations that the confirmed tree does not
// have, rewrites them away (package norm) and loads again. If a rewritten
// program does not type-check the rewrite is abandoned: the rules then see the
// program as written.
func loadNormalised(lc core.LoadConfig) (*core.Program, map[string][]byte, []string, error) {
	prog, err := core.Load(lc)
	if err != nil {
		return nil, nil, nil, err
	}
	base, err := norm.LoadBaseline()
	if err != nil {
		return prog, lc.Overlay, []string{"baseline unreadable: " + err.Error()}, nil
	}
	var notes []string
	cur := prog
	ov := lc.Overlay
	for round := 0; round < 6; round++ {
		pk := cur.Pkg("")
		if pk == nil {
			break
		}
		res, err := norm.Normalise(pk, base, cur.ReadFile, round)
		if err != nil || len(res.Overlay) == 0 {
			break
		}
		next := map[string][]byte{}
		for k, v := range ov {
			next[k] = v
		}
		for k, v := range res.Overlay {
			next[k] = v
		}
		lc2 := lc
		lc2.Overlay = next
		p2, err := core.Load(lc2)
		if err != nil {
			notes = append(notes, fmt.Sprintf("round %d abandoned (the rewritten program does not type-check: %v); rewrites of that round: %v", round+1, firstLine(err.Error()), res.Notes))
			break
		}
		notes = append(notes, res.Notes...)
		cur, ov = p2, next
	}
	return cur, ov, notes, nil
}

func firstLine(s string) string {
	ls := strings.Split(s, "\n")
	if len(ls) > 3 {
		ls = ls[:3]
	}
	return strings.Join(ls, " | ")
}

func fatal(code int, format string, a ...any) {
	fmt.Fprintf(os.Stderr, format+"\n", a...)
	os.Exit(code)
}
