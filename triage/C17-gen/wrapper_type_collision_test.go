package gengorums

// Genuine finding against C17 (fails on the unchanged tree):
// the Async*/Correctable* wrapper types are keyed by the bare Go name of the reply
// type. Two methods whose reply types have the same name in different packages
// (a local message Empty and google.protobuf.Empty) share one wrapper type, whose
// Get() asserts only one of the two types. The generated code compiles; for the
// other method the typed Get() of a correctable call returns nil for ever, and
// that of an async call panics with an interface conversion.

import (
	"go/ast"
	"go/format"
	"go/parser"
	"go/token"
	"strings"
	"testing"

	"github.com/relab/gorums"
	"google.golang.org/protobuf/compiler/protogen"
	"google.golang.org/protobuf/proto"
	"google.golang.org/protobuf/reflect/protodesc"
	"google.golang.org/protobuf/reflect/protoreflect"
	"google.golang.org/protobuf/types/descriptorpb"
	"google.golang.org/protobuf/types/known/emptypb"
	"google.golang.org/protobuf/types/pluginpb"
)

func g2CollectDeps(fd protoreflect.FileDescriptor, seen map[string]bool, out *[]*descriptorpb.FileDescriptorProto) {
	if seen[fd.Path()] {
		return
	}
	seen[fd.Path()] = true
	imps := fd.Imports()
	for i := 0; i < imps.Len(); i++ {
		g2CollectDeps(imps.Get(i).FileDescriptor, seen, out)
	}
	*out = append(*out, protodesc.ToFileDescriptorProto(fd))
}

func g2Generate(t *testing.T, fdp *descriptorpb.FileDescriptorProto, deps ...protoreflect.FileDescriptor) string {
	t.Helper()
	var files []*descriptorpb.FileDescriptorProto
	seen := map[string]bool{}
	for _, d := range deps {
		g2CollectDeps(d, seen, &files)
	}
	files = append(files, fdp)
	req := &pluginpb.CodeGeneratorRequest{
		FileToGenerate: []string{fdp.GetName()},
		ProtoFile:      files,
		Parameter:      proto.String("paths=source_relative"),
	}
	gen, err := protogen.Options{}.New(req)
	if err != nil {
		t.Fatal(err)
	}
	for _, f := range gen.Files {
		if f.Generate {
			GenerateFile(gen, f)
		}
	}
	resp := gen.Response()
	if resp.Error != nil {
		t.Fatalf("generator error: %s", resp.GetError())
	}
	if len(resp.File) != 1 {
		t.Fatalf("expected one generated file, got %d", len(resp.File))
	}
	return resp.File[0].GetContent()
}

func g2Msg(name string) *descriptorpb.DescriptorProto {
	return &descriptorpb.DescriptorProto{
		Name: proto.String(name),
		Field: []*descriptorpb.FieldDescriptorProto{{
			Name:     proto.String("value"),
			Number:   proto.Int32(1),
			Type:     descriptorpb.FieldDescriptorProto_TYPE_STRING.Enum(),
			Label:    descriptorpb.FieldDescriptorProto_LABEL_OPTIONAL.Enum(),
			JsonName: proto.String("value"),
		}},
	}
}

func g2Method(name, in, out string, exts ...protoreflect.ExtensionType) *descriptorpb.MethodDescriptorProto {
	mo := &descriptorpb.MethodOptions{}
	for _, x := range exts {
		proto.SetExtension(mo, x, true)
	}
	return &descriptorpb.MethodDescriptorProto{
		Name:       proto.String(name),
		InputType:  proto.String(in),
		OutputType: proto.String(out),
		Options:    mo,
	}
}

func g2Print(fset *token.FileSet, n ast.Node) string {
	var buf strings.Builder
	format.Node(&buf, fset, n)
	return buf.String()
}

//	service Store {
//	  rpc Flush(Request) returns (google.protobuf.Empty) { correctable }
//	  rpc Sync(Request) returns (Empty)                  { correctable }   // message Empty of this file
//	  rpc FlushAsync(Request) returns (google.protobuf.Empty) { quorumcall; async }
//	  rpc SyncAsync(Request) returns (Empty)                  { quorumcall; async }
//	}
func TestWrapperTypeMatchesQuorumFunctionResult(t *testing.T) {
	fdp := &descriptorpb.FileDescriptorProto{
		Name:        proto.String("store/store.proto"),
		Package:     proto.String("store"),
		Syntax:      proto.String("proto3"),
		Dependency:  []string{"gorums.proto", "google/protobuf/empty.proto"},
		Options:     &descriptorpb.FileOptions{GoPackage: proto.String("example.com/store")},
		MessageType: []*descriptorpb.DescriptorProto{g2Msg("Request"), g2Msg("Empty")},
		Service: []*descriptorpb.ServiceDescriptorProto{{
			Name: proto.String("Store"),
			Method: []*descriptorpb.MethodDescriptorProto{
				g2Method("Flush", ".store.Request", ".google.protobuf.Empty", gorums.E_Correctable),
				g2Method("Sync", ".store.Request", ".store.Empty", gorums.E_Correctable),
				g2Method("FlushAsync", ".store.Request", ".google.protobuf.Empty", gorums.E_Quorumcall, gorums.E_Async),
				g2Method("SyncAsync", ".store.Request", ".store.Empty", gorums.E_Quorumcall, gorums.E_Async),
			},
		}},
	}
	src := g2Generate(t, fdp, gorums.File_gorums_proto, emptypb.File_google_protobuf_empty_proto)
	fset := token.NewFileSet()
	f, err := parser.ParseFile(fset, "store_gorums.pb.go", src, 0)
	if err != nil {
		t.Fatalf("generated code does not parse: %v", err)
	}

	qfResult := map[string]string{}   // method -> first result type of its quorum function
	stubResult := map[string]string{} // method -> wrapper type returned by the client stub
	getResult := map[string]string{}  // wrapper type -> first result type of its Get method
	for _, d := range f.Decls {
		switch d := d.(type) {
		case *ast.GenDecl:
			for _, s := range d.Specs {
				ts, ok := s.(*ast.TypeSpec)
				if !ok || ts.Name.Name != "QuorumSpec" {
					continue
				}
				for _, m := range ts.Type.(*ast.InterfaceType).Methods.List {
					if ft, ok := m.Type.(*ast.FuncType); ok && len(m.Names) == 1 {
						qfResult[strings.TrimSuffix(m.Names[0].Name, "QF")] = g2Print(fset, ft.Results.List[0].Type)
					}
				}
			}
		case *ast.FuncDecl:
			if d.Recv == nil || d.Type.Results == nil {
				continue
			}
			recv := g2Print(fset, d.Recv.List[0].Type)
			res := g2Print(fset, d.Type.Results.List[0].Type)
			if recv == "*Configuration" {
				stubResult[d.Name.Name] = res
			} else if d.Name.Name == "Get" {
				getResult[recv] = res
			}
		}
	}
	for _, m := range []string{"Flush", "Sync", "FlushAsync", "SyncAsync"} {
		wrapper, ok := stubResult[m]
		if !ok {
			t.Fatalf("no client stub for %s", m)
		}
		get, ok := getResult[wrapper]
		if !ok {
			t.Fatalf("%s returns %s, which has no Get method", m, wrapper)
		}
		if get != qfResult[m] {
			t.Errorf("%s: the quorum function returns %s, but the call returns a %s whose Get() asserts the result to %s", m, qfResult[m], wrapper, get)
		}
	}
}
