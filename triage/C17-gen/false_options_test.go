package gengorums

// Genuine finding against C17 (fails on the unchanged tree):
// the generator only asks whether a gorums option is present on a method, not
// which value it has. A method that declares  option (gorums.async) = false;  or
// option (gorums.per_node_arg) = false;  is generated as if the option were true,
// and  option (gorums.multicast) = false;  turns an ordered RPC into a multicast.

import (
	"go/ast"
	"go/format"
	"go/parser"
	"go/token"
	"strings"
	"testing"

	"github.com/relab/gorums"
	"google.golang.org/protobuf/compiler/protogen"
	"google.golang.org/protobuf/proto"
	"google.golang.org/protobuf/reflect/protodesc"
	"google.golang.org/protobuf/reflect/protoreflect"
	"google.golang.org/protobuf/types/descriptorpb"
	"google.golang.org/protobuf/types/pluginpb"
)

func g3CollectDeps(fd protoreflect.FileDescriptor, seen map[string]bool, out *[]*descriptorpb.FileDescriptorProto) {
	if seen[fd.Path()] {
		return
	}
	seen[fd.Path()] = true
	imps := fd.Imports()
	for i := 0; i < imps.Len(); i++ {
		g3CollectDeps(imps.Get(i).FileDescriptor, seen, out)
	}
	*out = append(*out, protodesc.ToFileDescriptorProto(fd))
}

func g3Generate(t *testing.T, fdp *descriptorpb.FileDescriptorProto, deps ...protoreflect.FileDescriptor) string {
	t.Helper()
	var files []*descriptorpb.FileDescriptorProto
	seen := map[string]bool{}
	for _, d := range deps {
		g3CollectDeps(d, seen, &files)
	}
	files = append(files, fdp)
	req := &pluginpb.CodeGeneratorRequest{
		FileToGenerate: []string{fdp.GetName()},
		ProtoFile:      files,
		Parameter:      proto.String("paths=source_relative"),
	}
	gen, err := protogen.Options{}.New(req)
	if err != nil {
		t.Fatal(err)
	}
	for _, f := range gen.Files {
		if f.Generate {
			GenerateFile(gen, f)
		}
	}
	resp := gen.Response()
	if resp.Error != nil {
		t.Fatalf("generator error: %s", resp.GetError())
	}
	if len(resp.File) != 1 {
		t.Fatalf("expected one generated file, got %d", len(resp.File))
	}
	return resp.File[0].GetContent()
}

func g3Msg(name string) *descriptorpb.DescriptorProto {
	return &descriptorpb.DescriptorProto{
		Name: proto.String(name),
		Field: []*descriptorpb.FieldDescriptorProto{{
			Name:     proto.String("value"),
			Number:   proto.Int32(1),
			Type:     descriptorpb.FieldDescriptorProto_TYPE_STRING.Enum(),
			Label:    descriptorpb.FieldDescriptorProto_LABEL_OPTIONAL.Enum(),
			JsonName: proto.String("value"),
		}},
	}
}

type g3Opt struct {
	ext protoreflect.ExtensionType
	val bool
}

func g3Method(name, in, out string, opts ...g3Opt) *descriptorpb.MethodDescriptorProto {
	mo := &descriptorpb.MethodOptions{}
	for _, o := range opts {
		proto.SetExtension(mo, o.ext, o.val)
	}
	return &descriptorpb.MethodDescriptorProto{
		Name:       proto.String(name),
		InputType:  proto.String(in),
		OutputType: proto.String(out),
		Options:    mo,
	}
}

//	service Store {
//	  rpc Read(Request) returns (Response)   { quorumcall = true; async = false; per_node_arg = false; }
//	  rpc Plain(Request) returns (Response)  { quorumcall = true; }                      // reference
//	  rpc Fetch(Request) returns (Response)    { multicast = false; }
//	  rpc PlainFetch(Request) returns (Response) {}                                        // reference
//	}
func TestOptionsSetToFalseAreNotInEffect(t *testing.T) {
	fdp := &descriptorpb.FileDescriptorProto{
		Name:        proto.String("store/store.proto"),
		Package:     proto.String("store"),
		Syntax:      proto.String("proto3"),
		Dependency:  []string{"gorums.proto"},
		Options:     &descriptorpb.FileOptions{GoPackage: proto.String("example.com/store")},
		MessageType: []*descriptorpb.DescriptorProto{g3Msg("Request"), g3Msg("Response")},
		Service: []*descriptorpb.ServiceDescriptorProto{{
			Name: proto.String("Store"),
			Method: []*descriptorpb.MethodDescriptorProto{
				g3Method("Read", ".store.Request", ".store.Response", g3Opt{gorums.E_Quorumcall, true}, g3Opt{gorums.E_Async, false}, g3Opt{gorums.E_PerNodeArg, false}),
				g3Method("Plain", ".store.Request", ".store.Response", g3Opt{gorums.E_Quorumcall, true}),
				g3Method("Fetch", ".store.Request", ".store.Response", g3Opt{gorums.E_Multicast, false}),
				g3Method("PlainFetch", ".store.Request", ".store.Response"),
			},
		}},
	}
	src := g3Generate(t, fdp, gorums.File_gorums_proto)
	fset := token.NewFileSet()
	f, err := parser.ParseFile(fset, "store_gorums.pb.go", src, 0)
	if err != nil {
		t.Fatalf("generated code does not parse: %v", err)
	}
	// signature of every client stub with the method name replaced by M
	sig := map[string]string{}
	for _, d := range f.Decls {
		fd, ok := d.(*ast.FuncDecl)
		if !ok || fd.Recv == nil {
			continue
		}
		var buf strings.Builder
		format.Node(&buf, fset, fd.Recv.List[0].Type)
		if buf.String() != "*Configuration" && buf.String() != "*Node" {
			continue
		}
		buf.WriteString(" M")
		var ft strings.Builder
		format.Node(&ft, fset, fd.Type)
		buf.WriteString(strings.TrimPrefix(ft.String(), "func"))
		sig[fd.Name.Name] = buf.String()
	}
	if sig["Read"] != sig["Plain"] {
		t.Errorf("async = false and per_node_arg = false are treated as true:\n  Read:  %s\n  Plain: %s", sig["Read"], sig["Plain"])
	}
	if sig["Fetch"] != sig["PlainFetch"] {
		t.Errorf("multicast = false is treated as true:\n  Fetch:      %s\n  PlainFetch: %s", sig["Fetch"], sig["PlainFetch"])
	}
}
