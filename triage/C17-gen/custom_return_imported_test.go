package gengorums

// Genuine finding against C17 (fails on the unchanged tree):
// custom_return_type combined with a reply type that lives in another Go package
// (e.g. google.protobuf.Empty) makes the generator look for the custom type in
// that other package: the stub returns *emptypb.WriteResult instead of *WriteResult.

import (
	"go/ast"
	"go/format"
	"go/parser"
	"go/token"
	"strings"
	"testing"

	"github.com/relab/gorums"
	"google.golang.org/protobuf/compiler/protogen"
	"google.golang.org/protobuf/proto"
	"google.golang.org/protobuf/reflect/protodesc"
	"google.golang.org/protobuf/reflect/protoreflect"
	"google.golang.org/protobuf/types/descriptorpb"
	"google.golang.org/protobuf/types/known/emptypb"
	"google.golang.org/protobuf/types/pluginpb"
)

func g1CollectDeps(fd protoreflect.FileDescriptor, seen map[string]bool, out *[]*descriptorpb.FileDescriptorProto) {
	if seen[fd.Path()] {
		return
	}
	seen[fd.Path()] = true
	imps := fd.Imports()
	for i := 0; i < imps.Len(); i++ {
		g1CollectDeps(imps.Get(i).FileDescriptor, seen, out)
	}
	*out = append(*out, protodesc.ToFileDescriptorProto(fd))
}

func g1Generate(t *testing.T, fdp *descriptorpb.FileDescriptorProto, deps ...protoreflect.FileDescriptor) string {
	t.Helper()
	var files []*descriptorpb.FileDescriptorProto
	seen := map[string]bool{}
	for _, d := range deps {
		g1CollectDeps(d, seen, &files)
	}
	files = append(files, fdp)
	req := &pluginpb.CodeGeneratorRequest{
		FileToGenerate: []string{fdp.GetName()},
		ProtoFile:      files,
		Parameter:      proto.String("paths=source_relative"),
	}
	gen, err := protogen.Options{}.New(req)
	if err != nil {
		t.Fatal(err)
	}
	for _, f := range gen.Files {
		if f.Generate {
			GenerateFile(gen, f)
		}
	}
	resp := gen.Response()
	if resp.Error != nil {
		t.Fatalf("generator error: %s", resp.GetError())
	}
	if len(resp.File) != 1 {
		t.Fatalf("expected one generated file, got %d", len(resp.File))
	}
	return resp.File[0].GetContent()
}

func g1Msg(name string) *descriptorpb.DescriptorProto {
	return &descriptorpb.DescriptorProto{
		Name: proto.String(name),
		Field: []*descriptorpb.FieldDescriptorProto{{
			Name:     proto.String("value"),
			Number:   proto.Int32(1),
			Type:     descriptorpb.FieldDescriptorProto_TYPE_STRING.Enum(),
			Label:    descriptorpb.FieldDescriptorProto_LABEL_OPTIONAL.Enum(),
			JsonName: proto.String("value"),
		}},
	}
}

func g1Method(name, in, out, custom string, exts ...protoreflect.ExtensionType) *descriptorpb.MethodDescriptorProto {
	mo := &descriptorpb.MethodOptions{}
	for _, x := range exts {
		proto.SetExtension(mo, x, true)
	}
	proto.SetExtension(mo, gorums.E_CustomReturnType, custom)
	return &descriptorpb.MethodDescriptorProto{
		Name:       proto.String(name),
		InputType:  proto.String(in),
		OutputType: proto.String(out),
		Options:    mo,
	}
}

//	service Store {
//	  rpc Write(State) returns (google.protobuf.Empty)      { quorumcall; custom_return_type = "WriteResult" }
//	  rpc WriteAsync(State) returns (google.protobuf.Empty) { quorumcall; async; custom_return_type = "WriteResult" }
//	  rpc WriteCorr(State) returns (google.protobuf.Empty)  { correctable; custom_return_type = "WriteResult" }
//	}
func TestCustomReturnTypeWithImportedReplyType(t *testing.T) {
	fdp := &descriptorpb.FileDescriptorProto{
		Name:        proto.String("store/store.proto"),
		Package:     proto.String("store"),
		Syntax:      proto.String("proto3"),
		Dependency:  []string{"gorums.proto", "google/protobuf/empty.proto"},
		Options:     &descriptorpb.FileOptions{GoPackage: proto.String("example.com/store")},
		MessageType: []*descriptorpb.DescriptorProto{g1Msg("State"), g1Msg("WriteResult")},
		Service: []*descriptorpb.ServiceDescriptorProto{{
			Name: proto.String("Store"),
			Method: []*descriptorpb.MethodDescriptorProto{
				g1Method("Write", ".store.State", ".google.protobuf.Empty", "WriteResult", gorums.E_Quorumcall),
				g1Method("WriteAsync", ".store.State", ".google.protobuf.Empty", "WriteResult", gorums.E_Quorumcall, gorums.E_Async),
				g1Method("WriteCorr", ".store.State", ".google.protobuf.Empty", "WriteResult", gorums.E_Correctable),
			},
		}},
	}
	src := g1Generate(t, fdp, gorums.File_gorums_proto, emptypb.File_google_protobuf_empty_proto)
	fset := token.NewFileSet()
	f, err := parser.ParseFile(fset, "store_gorums.pb.go", src, 0)
	if err != nil {
		t.Fatalf("generated code does not parse: %v", err)
	}
	// WriteResult is a message of the generated package itself; package emptypb
	// declares Empty only. Any other selector on emptypb cannot compile.
	seen := map[string]bool{}
	ast.Inspect(f, func(n ast.Node) bool {
		sel, ok := n.(*ast.SelectorExpr)
		if !ok {
			return true
		}
		if x, ok := sel.X.(*ast.Ident); ok && x.Name == "emptypb" && sel.Sel.Name != "Empty" {
			pos := fset.Position(sel.Pos())
			line := strings.Split(src, "\n")[pos.Line-1]
			if !seen[line] {
				seen[line] = true
				t.Errorf("generated code refers to emptypb.%s, which does not exist:\n\t%s", sel.Sel.Name, strings.TrimSpace(line))
			}
		}
		return true
	})
	// the quorum call stub must return the custom type of the generated package
	for _, d := range f.Decls {
		fd, ok := d.(*ast.FuncDecl)
		if !ok || fd.Name.Name != "Write" || fd.Recv == nil {
			continue
		}
		var buf strings.Builder
		format.Node(&buf, fset, fd.Type.Results.List[0].Type)
		if buf.String() != "*WriteResult" {
			t.Errorf("Configuration.Write returns %s, want *WriteResult", buf.String())
		}
	}
}
