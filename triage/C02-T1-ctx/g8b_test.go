package gorums_test

import (
	"context"
	"errors"
	"testing"
	"time"

	"github.com/relab/gorums"
	"github.com/relab/gorums/tests/dummy"
	"google.golang.org/protobuf/reflect/protoreflect"
)

// TestQuorumCallExpiredContextError makes quorum calls whose context has ended before the
// call is made. Every such call reports an error, and that error must match the context's
// error under errors.Is.
func TestQuorumCallExpiredContextError(t *testing.T) {
	addrs, teardown := gorums.TestSetup(t, 1, func(_ int) gorums.ServerIface {
		return initServer()
	})
	defer teardown()

	mgr := gorumsTestMgr()
	defer mgr.Close()
	cfg, err := mgr.NewConfiguration(gorums.WithNodeList(addrs))
	if err != nil {
		t.Fatal(err)
	}

	qf := func(_ protoreflect.ProtoMessage, replies map[uint32]protoreflect.ProtoMessage) (protoreflect.ProtoMessage, bool) {
		for _, r := range replies {
			return r, true
		}
		return nil, false
	}

	const calls = 400
	mismatches := 0
	var example error
	for i := 0; i < calls; i++ {
		ctx, cancel := context.WithCancel(context.Background())
		cancel()
		done := make(chan error, 1)
		go func() {
			_, err := cfg.RawConfiguration.QuorumCall(ctx, gorums.QuorumCallData{
				Message:        &dummy.Empty{},
				Method:         "dummy.Dummy.Test",
				QuorumFunction: qf,
			})
			done <- err
		}()
		select {
		case err := <-done:
			if err == nil {
				continue // the call happened to succeed; nothing is reported
			}
			if !errors.Is(err, ctx.Err()) {
				mismatches++
				example = err
			}
		case <-time.After(20 * time.Second):
			t.Fatal("quorum call with an ended context did not return within 20s")
		}
	}
	if mismatches > 0 {
		t.Errorf("%d of %d quorum calls with a cancelled context reported an error that does not match %v; e.g.: %v",
			mismatches, calls, context.Canceled, example)
	}
}
