package gorums_test

import (
	"context"
	"errors"
	"testing"
	"time"

	"github.com/relab/gorums"
	"github.com/relab/gorums/tests/config"
	"google.golang.org/grpc"
	"google.golang.org/grpc/credentials/insecure"
	"google.golang.org/protobuf/reflect/protoreflect"
)

// TestC02CancelledContextOutcome makes quorum calls with a context that has
// ended before the call is made. The only outcome the property allows is the
// context's error; the call must not report Incomplete, because no node was
// ever asked and the context ended first.
func TestC02CancelledContextOutcome(t *testing.T) {
	const numNodes = 3
	addrs, teardown := gorums.TestSetup(t, numNodes, func(_ int) gorums.ServerIface {
		srv := gorums.NewServer()
		srv.RegisterHandler("config.ConfigTest.Config", func(ctx gorums.ServerCtx, in *gorums.Message, finished chan<- *gorums.Message) {
			req := in.Message.(*config.Request)
			ctx.Release()
			_ = gorums.SendMessage(ctx, finished, gorums.WrapMessage(in.Metadata, &config.Response{Num: req.GetNum()}, nil))
		})
		return srv
	})
	defer teardown()

	mgr := gorums.NewRawManager(
		gorums.WithDialTimeout(5*time.Second),
		gorums.WithGrpcDialOptions(grpc.WithBlock(), grpc.WithTransportCredentials(insecure.NewCredentials())),
	)
	defer mgr.Close()
	idMap := make(map[string]uint32)
	for i, a := range addrs {
		idMap[a] = uint32(i + 1)
	}
	cfg, err := gorums.NewRawConfiguration(mgr, gorums.WithNodeMap(idMap))
	if err != nil {
		t.Fatal(err)
	}

	qf := func(_ protoreflect.ProtoMessage, replies map[uint32]protoreflect.ProtoMessage) (protoreflect.ProtoMessage, bool) {
		if len(replies) < numNodes {
			return nil, false
		}
		for _, r := range replies {
			return r, true
		}
		return nil, true
	}

	const rounds = 300
	var incomplete, ctxErr, other int
	var sample error
	for i := 0; i < rounds; i++ {
		ctx, cancel := context.WithCancel(context.Background())
		cancel() // the context ends before the call is made
		type result struct {
			err error
		}
		done := make(chan result, 1)
		go func() {
			_, err := cfg.QuorumCall(ctx, gorums.QuorumCallData{
				Message:        &config.Request{Num: uint64(i)},
				Method:         "config.ConfigTest.Config",
				QuorumFunction: qf,
			})
			done <- result{err}
		}()
		select {
		case r := <-done:
			switch {
			case errors.Is(r.err, context.Canceled):
				ctxErr++
			case errors.Is(r.err, gorums.Incomplete):
				incomplete++
				if sample == nil {
					sample = r.err
				}
			default:
				other++
				if sample == nil {
					sample = r.err
				}
			}
		case <-time.After(20 * time.Second):
			t.Fatal("quorum call with an ended context did not return")
		}
	}
	t.Logf("outcomes over %d calls with an already cancelled context: context error %d, Incomplete %d, other %d", rounds, ctxErr, incomplete, other)
	if incomplete+other > 0 {
		t.Errorf("%d of %d calls made with an already cancelled context did not return the context's error; e.g.: %v", incomplete+other, rounds, sample)
	}
}
