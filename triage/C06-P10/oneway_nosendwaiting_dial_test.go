package oneway_test

import (
	"context"
	"net"
	"testing"
	"time"

	"github.com/relab/gorums"
	"github.com/relab/gorums/tests/oneway"
	"google.golang.org/grpc"
	"google.golang.org/grpc/credentials/insecure"
)

// TestNoSendWaitingDoesNotWaitForConnection checks that one-way calls with the
// WithNoSendWaiting option return without waiting for the connection to the node,
// also when the node's channel is busy trying to connect for an earlier message.
func TestNoSendWaitingDoesNotWaitForConnection(t *testing.T) {
	// a node that accepts TCP connections but never completes the HTTP/2
	// handshake, so that a blocking dial takes the whole dial timeout.
	lis, err := net.Listen("tcp", "127.0.0.1:0")
	if err != nil {
		t.Fatal(err)
	}
	defer lis.Close()
	go func() {
		for {
			conn, err := lis.Accept()
			if err != nil {
				return
			}
			defer conn.Close() // keep the connection open and silent until the test ends
		}
	}()

	const dialTimeout = 4 * time.Second
	mgr := oneway.NewManager(
		gorums.WithDialTimeout(dialTimeout),
		gorums.WithGrpcDialOptions(
			grpc.WithBlock(),
			grpc.WithTransportCredentials(insecure.NewCredentials()),
		),
	)
	defer mgr.Close()
	// creating the configuration waits for the first (failing) dial
	cfg, err := mgr.NewConfiguration(&testQSpec{}, gorums.WithNodeMap(map[string]uint32{lis.Addr().String(): 1}))
	if err != nil {
		t.Fatal(err)
	}
	node := cfg.Nodes()[0]

	done := make(chan [3]time.Duration, 1)
	go func() {
		var took [3]time.Duration
		for i := range took {
			start := time.Now()
			if i%2 == 0 {
				node.Unicast(context.Background(), &oneway.Request{Num: uint64(i)}, gorums.WithNoSendWaiting())
			} else {
				cfg.Multicast(context.Background(), &oneway.Request{Num: uint64(i)}, gorums.WithNoSendWaiting())
			}
			took[i] = time.Since(start)
		}
		done <- took
	}()

	select {
	case took := <-done:
		for i, d := range took {
			t.Logf("one-way call %d with WithNoSendWaiting returned after %v", i, d)
			if d > dialTimeout/4 {
				t.Errorf("one-way call %d with WithNoSendWaiting returned after %v; it waited for the connection attempt (dial timeout %v)", i, d, dialTimeout)
			}
		}
	case <-time.After(40 * time.Second):
		t.Fatal("one-way calls with WithNoSendWaiting did not return")
	}
}
