package correctable

import (
	"context"
	"testing"
	"time"

	"github.com/relab/gorums"
	"google.golang.org/grpc"
	"google.golang.org/grpc/credentials/insecure"
)

// Configuration.And accepts a configuration of another manager. The calls on
// the combined configuration take their message IDs from the manager of its
// first node, the other manager numbers its own calls independently, and both
// kinds of calls share the channel (and the router map) of the common node.

type mmSrv struct{ gate <-chan struct{} }

func (s mmSrv) Correctable(_ gorums.ServerCtx, _ *CorrectableRequest) (*CorrectableResponse, error) {
	if s.gate != nil {
		<-s.gate
	}
	return &CorrectableResponse{Level: 1}, nil
}

func (s mmSrv) CorrectableStream(_ gorums.ServerCtx, _ *CorrectableRequest, _ func(*CorrectableResponse) error) error {
	return nil
}

// mmQSpec is done when all nodes of the configuration have replied.
type mmQSpec struct{ nodes int }

func (q mmQSpec) qf(replies map[uint32]*CorrectableResponse) (*CorrectableResponse, int, bool) {
	return &CorrectableResponse{Level: int32(len(replies))}, len(replies), len(replies) >= q.nodes
}

func (q mmQSpec) CorrectableStreamQF(_ *CorrectableRequest, replies map[uint32]*CorrectableResponse) (*CorrectableResponse, int, bool) {
	return q.qf(replies)
}

func (q mmQSpec) CorrectableQF(_ *CorrectableRequest, replies map[uint32]*CorrectableResponse) (*CorrectableResponse, int, bool) {
	return q.qf(replies)
}

func TestCallsOnConfigurationOfTwoManagers(t *testing.T) {
	gate := make(chan struct{})
	addrs, teardown := gorums.TestSetup(t, 2, func(i int) gorums.ServerIface {
		gorumsSrv := gorums.NewServer()
		RegisterCorrectableTestServer(gorumsSrv, mmSrv{gate}) // the nodes answer when told
		return gorumsSrv
	})
	defer teardown()

	newMgr := func() *Manager {
		return NewManager(
			gorums.WithDialTimeout(5*time.Second),
			gorums.WithGrpcDialOptions(
				grpc.WithBlock(),
				grpc.WithTransportCredentials(insecure.NewCredentials()),
			),
		)
	}
	mgr1, mgr2 := newMgr(), newMgr()
	defer mgr1.Close()
	defer mgr2.Close()

	cfg1, err := mgr1.NewConfiguration(mmQSpec{1}, gorums.WithNodeList(addrs[:1]))
	if err != nil {
		t.Fatal(err)
	}
	cfg2, err := mgr2.NewConfiguration(mmQSpec{1}, gorums.WithNodeList(addrs[1:]))
	if err != nil {
		t.Fatal(err)
	}
	both, err := mgr1.NewConfiguration(mmQSpec{2}, cfg1.And(cfg2))
	if err != nil {
		t.Skipf("combining configurations of two managers is rejected: %v", err)
	}
	if both.Size() != 2 {
		t.Fatalf("combined configuration has %d nodes, want 2", both.Size())
	}

	// call A on both nodes, calls B and C on one node each through its own
	// manager; the nodes answer all requests, in this order, once the gate is
	// opened. (Which manager numbers A's requests depends on the order of the
	// node IDs, which are derived from the port numbers; one of B and C is
	// numbered by the other one.)
	a := both.Correctable(context.Background(), &CorrectableRequest{})
	b := cfg2.Correctable(context.Background(), &CorrectableRequest{})
	c := cfg1.Correctable(context.Background(), &CorrectableRequest{})
	time.Sleep(200 * time.Millisecond)
	close(gate)

	for name, call := range map[string]*CorrectableCorrectableResponse{"A (both nodes)": a, "B (node of mgr2)": b, "C (node of mgr1)": c} {
		select {
		case <-call.Done():
			if _, _, err := call.Get(); err != nil {
				t.Errorf("call %s: %v", name, err)
			}
		case <-time.After(5 * time.Second):
			t.Errorf("call %s has not completed 5 s after all its nodes have answered", name)
		}
	}
}
