package correctable

import (
	"context"
	"sync"
	"sync/atomic"
	"testing"
	"time"

	"github.com/relab/gorums"
	"google.golang.org/grpc"
	"google.golang.org/grpc/credentials/insecure"
	"google.golang.org/protobuf/reflect/protoreflect"
)

// Two clients of the same manager each make a correctable stream call with a
// per-node request (the per_node_arg option; here the call data that the
// generated code would build is passed to CorrectableCall directly, because the
// test service has no per_node_arg method). Both use a configuration of the same
// two nodes. The second configuration is not made by NewConfiguration (which
// sorts the nodes by ID) but from a RawConfiguration that the program put
// together itself, with ConfigurationFromRaw, and lists the nodes in the
// opposite order. Preparing the request for the second node takes a while,
// and the servers send their updates in a burst.
// Afterwards both calls must have completed and both nodes must be usable.

const rawPairBurst = 6 // updates that a node sends at once for a stream call

type rawPairSrv struct {
	sent chan struct{} // gets a token when all updates of a call have been handed over
}

func (s rawPairSrv) CorrectableStream(_ gorums.ServerCtx, _ *CorrectableRequest, send func(*CorrectableResponse) error) error {
	for i := 1; i <= rawPairBurst; i++ {
		if err := send(&CorrectableResponse{Level: int32(i)}); err != nil {
			return err
		}
	}
	select {
	case s.sent <- struct{}{}:
	default:
	}
	return nil
}

func (s rawPairSrv) Correctable(_ gorums.ServerCtx, _ *CorrectableRequest) (*CorrectableResponse, error) {
	return &CorrectableResponse{Level: 1}, nil
}

type rawPairQSpec struct{ n int }

func (q rawPairQSpec) done(replies map[uint32]*CorrectableResponse) (*CorrectableResponse, int, bool) {
	return &CorrectableResponse{Level: int32(len(replies))}, len(replies), len(replies) == q.n
}

func (q rawPairQSpec) CorrectableStreamQF(_ *CorrectableRequest, replies map[uint32]*CorrectableResponse) (*CorrectableResponse, int, bool) {
	return q.done(replies)
}

func (q rawPairQSpec) CorrectableQF(_ *CorrectableRequest, replies map[uint32]*CorrectableResponse) (*CorrectableResponse, int, bool) {
	return q.done(replies)
}

func TestConcurrentStreamCallsOnHandBuiltConfigurations(t *testing.T) {
	const n = 2
	sent := make(chan struct{}, 4*n)
	addrs, teardown := gorums.TestSetup(t, n, func(_ int) gorums.ServerIface {
		srv := gorums.NewServer()
		RegisterCorrectableTestServer(srv, rawPairSrv{sent})
		return srv
	})
	defer teardown()

	mgr := NewManager(
		gorums.WithDialTimeout(5*time.Second),
		gorums.WithGrpcDialOptions(
			grpc.WithBlock(),
			grpc.WithTransportCredentials(insecure.NewCredentials()),
		),
	)
	defer mgr.Close()
	qs := rawPairQSpec{n}
	all, err := mgr.NewConfiguration(qs, gorums.WithNodeList(addrs))
	if err != nil {
		t.Fatal(err)
	}
	cfg1 := all
	// the same nodes, listed in the opposite order
	raw := all.RawConfiguration
	cfg2, err := ConfigurationFromRaw(gorums.RawConfiguration{raw[1], raw[0]}, qs)
	if err != nil {
		t.Fatal(err)
	}

	ctx, cancel := context.WithTimeout(context.Background(), 30*time.Second)
	defer cancel()

	// the request for the second node of a call is ready when proceed is closed
	proceed := make(chan struct{})
	var proceedOnce sync.Once
	release := func() { proceedOnce.Do(func() { close(proceed) }) }
	defer release()

	streamCall := func(cfg *Configuration) <-chan *gorums.Correctable {
		var prepared int32
		cd := gorums.CorrectableCallData{
			Message:      &CorrectableRequest{},
			Method:       "correctable.CorrectableTest.CorrectableStream",
			ServerStream: true,
			PerNodeArgFn: func(req protoreflect.ProtoMessage, _ uint32) protoreflect.ProtoMessage {
				if atomic.AddInt32(&prepared, 1) == 2 {
					<-proceed
				}
				return req
			},
			QuorumFunction: func(_ protoreflect.ProtoMessage, replies map[uint32]protoreflect.ProtoMessage) (protoreflect.ProtoMessage, int, bool) {
				r := make(map[uint32]*CorrectableResponse, len(replies))
				for k, v := range replies {
					r[k] = v.(*CorrectableResponse)
				}
				return qs.CorrectableStreamQF(nil, r)
			},
		}
		started := make(chan *gorums.Correctable, 1)
		go func() { started <- cfg.RawConfiguration.CorrectableCall(ctx, cd) }()
		return started
	}

	started1 := streamCall(cfg1)
	started2 := streamCall(cfg2)

	// Both calls have sent the request to their first node and prepare the one
	// for the second node. Wait until the servers that got a request have sent
	// their updates (if both calls start with the same node, the other server
	// has nothing to do yet), and let the updates arrive at the client.
	deadline := time.After(2 * time.Second)
wait:
	for i := 0; i < n; i++ {
		select {
		case <-sent:
		case <-deadline:
			break wait
		}
	}
	time.Sleep(500 * time.Millisecond)

	// the requests for the second nodes are ready
	release()

	callsCtx, callsCancel := context.WithTimeout(context.Background(), 10*time.Second)
	defer callsCancel()
	for i, started := range []<-chan *gorums.Correctable{started1, started2} {
		var corr *gorums.Correctable
		select {
		case corr = <-started:
		case <-callsCtx.Done():
			t.Errorf("stream call %d: the request was not handed to all nodes within 10 s", i+1)
			continue
		}
		select {
		case <-corr.Done():
		case <-callsCtx.Done():
			t.Errorf("stream call %d did not complete within 10 s", i+1)
			continue
		}
		if _, _, err := corr.Get(); err != nil {
			t.Errorf("stream call %d: %v", i+1, err)
		}
	}

	// both servers are up and their handlers have returned: a plain
	// correctable call with a fresh context must get both replies.
	for i := 0; i < 3; i++ {
		finished := make(chan error, 1)
		go func() {
			pctx, pcancel := context.WithTimeout(context.Background(), 5*time.Second)
			defer pcancel()
			probe := all.Correctable(pctx, &CorrectableRequest{})
			<-probe.Done()
			_, _, err := probe.Get()
			finished <- err
		}()
		select {
		case err := <-finished:
			if err != nil {
				t.Fatalf("probe %d after the stream calls: %v (nodes are stuck although their servers are up)", i, err)
			}
		case <-time.After(10 * time.Second):
			t.Fatalf("probe %d after the stream calls did not return within 10 s, twice its deadline (nodes are stuck although their servers are up)", i)
		}
	}
}
