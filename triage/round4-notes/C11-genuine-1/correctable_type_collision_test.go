package gengorums

import (
	"regexp"
	"strings"
	"testing"

	"github.com/relab/gorums"
	"google.golang.org/protobuf/compiler/protogen"
	"google.golang.org/protobuf/proto"
	"google.golang.org/protobuf/reflect/protodesc"
	"google.golang.org/protobuf/types/descriptorpb"
	"google.golang.org/protobuf/types/pluginpb"
)

// generateCollisionFile runs the generator on
//
//	message Request {}
//	message Foo {}
//	message StreamFoo {}
//	service Storage {
//	  rpc Read(Request) returns (StreamFoo)   { option (gorums.correctable) = true; }
//	  rpc Watch(Request) returns (stream Foo) { option (gorums.correctable) = true; }
//	}
//
// and returns the content of the generated file.
func generateCollisionFile(t *testing.T) string {
	t.Helper()
	correctableOpt := func() *descriptorpb.MethodOptions {
		o := &descriptorpb.MethodOptions{}
		proto.SetExtension(o, gorums.E_Correctable, true)
		return o
	}
	file := &descriptorpb.FileDescriptorProto{
		Name:       proto.String("collision/collision.proto"),
		Package:    proto.String("collision"),
		Syntax:     proto.String("proto3"),
		Dependency: []string{"gorums.proto"},
		Options:    &descriptorpb.FileOptions{GoPackage: proto.String("example.com/collision")},
		MessageType: []*descriptorpb.DescriptorProto{
			{Name: proto.String("Request")},
			{Name: proto.String("Foo")},
			{Name: proto.String("StreamFoo")},
		},
		Service: []*descriptorpb.ServiceDescriptorProto{{
			Name: proto.String("Storage"),
			Method: []*descriptorpb.MethodDescriptorProto{
				{
					Name:       proto.String("Read"),
					InputType:  proto.String(".collision.Request"),
					OutputType: proto.String(".collision.StreamFoo"),
					Options:    correctableOpt(),
				},
				{
					Name:            proto.String("Watch"),
					InputType:       proto.String(".collision.Request"),
					OutputType:      proto.String(".collision.Foo"),
					ServerStreaming: proto.Bool(true),
					Options:         correctableOpt(),
				},
			},
		}},
	}
	gorumsFile := protodesc.ToFileDescriptorProto(gorums.File_gorums_proto)
	req := &pluginpb.CodeGeneratorRequest{
		FileToGenerate: []string{"collision/collision.proto"},
		ProtoFile: []*descriptorpb.FileDescriptorProto{
			protodesc.ToFileDescriptorProto(descriptorpb.File_google_protobuf_descriptor_proto),
			gorumsFile,
			file,
		},
	}
	gen, err := protogen.Options{}.New(req)
	if err != nil {
		t.Fatal(err)
	}
	for _, f := range gen.Files {
		if f.Generate {
			GenerateFile(gen, f)
		}
	}
	resp := gen.Response()
	if resp.Error != nil {
		t.Fatalf("generator error: %s", resp.GetError())
	}
	if len(resp.File) != 1 {
		t.Fatalf("got %d generated files, want 1", len(resp.File))
	}
	return resp.File[0].GetContent()
}

// TestCorrectableTypesOfStreamAndPlainMethodsDoNotCollide:
// The correctable data type of a method is named <prefix><reply type> with the
// prefix "Correctable" for a plain and "CorrectableStream" for a server-stream
// method. The plain method Read with reply type StreamFoo and the stream method
// Watch with reply type Foo are both given the type CorrectableStreamFoo; only
// one such type is generated, and its Get converts the stored reply to one of
// the two message types. For the other method the typed Get can never show the
// value that its quorum function returned: the checked type assertion fails
// and Get returns (nil, level, nil) for every published level.
func TestCorrectableTypesOfStreamAndPlainMethodsDoNotCollide(t *testing.T) {
	content := generateCollisionFile(t)

	sig := func(method string) string {
		re := regexp.MustCompile(`func \(c \*Configuration\) ` + method + `\(ctx context\.Context, in \*Request\) \*(\w+) \{`)
		m := re.FindStringSubmatch(content)
		if m == nil {
			t.Fatalf("no client method %s in the generated file", method)
		}
		return m[1]
	}
	qfValue := func(method string) string {
		re := regexp.MustCompile(method + `QF\(in \*Request, replies map\[uint32\]\*\w+\) \(\*(\w+), int, bool\)`)
		m := re.FindStringSubmatch(content)
		if m == nil {
			t.Fatalf("no quorum function %sQF in the generated QuorumSpec", method)
		}
		return m[1]
	}
	getValue := func(corrType string) []string {
		re := regexp.MustCompile(`func \(c \*` + corrType + `\) Get\(\) \(\*(\w+), int, error\)`)
		var values []string
		for _, m := range re.FindAllStringSubmatch(content, -1) {
			values = append(values, m[1])
		}
		return values
	}

	for _, method := range []string{"Read", "Watch"} {
		corrType := sig(method)
		value := qfValue(method)
		if n := strings.Count(content, "type "+corrType+" struct"); n != 1 {
			t.Errorf("%s returns *%s, which is declared %d times", method, corrType, n)
		}
		gets := getValue(corrType)
		if len(gets) != 1 || gets[0] != value {
			t.Errorf("%sQF returns *%s and %s returns *%s, but (*%s).Get returns %v: the value published by %s cannot be read",
				method, value, method, corrType, corrType, gets, method)
		}
	}
}
