package config

import (
	"context"
	"sync"
	"testing"
	"time"

	gorums "github.com/relab/gorums"
	"google.golang.org/grpc"
	"google.golang.org/grpc/credentials/insecure"
)

// c01GateSrv echoes the request's number; if gate is set, it first reports
// the arrival of the request and waits for the gate.
type c01GateSrv struct {
	name    string
	arrived chan uint64
	gate    chan struct{}
}

func (s *c01GateSrv) Config(ctx gorums.ServerCtx, req *Request) (*Response, error) {
	if s.gate != nil {
		// let the next request in while this one waits
		ctx.Release()
		s.arrived <- req.GetNum()
		<-s.gate
	}
	return &Response{Name: s.name, Num: req.GetNum()}, nil
}

// c01EchoQSpec needs need replies and records every reply it is shown.
type c01EchoQSpec struct {
	need int
	mu   sync.Mutex
	bad  []string
}

func (q *c01EchoQSpec) ConfigQF(in *Request, replies map[uint32]*Response) (*Response, bool) {
	q.mu.Lock()
	for id, r := range replies {
		if r.GetNum() != in.GetNum() {
			q.bad = append(q.bad, r.String()+" under node "+string(rune('0'+id))+" shown to the call with request "+in.String())
		}
	}
	q.mu.Unlock()
	if len(replies) < q.need {
		return nil, false
	}
	return &Response{Name: "verdict", Num: in.GetNum()}, true
}

// Two managers; a configuration of the first manager is extended with a
// configuration of the second (And), and both the union and the second
// manager's own configuration are used at the same time.
func TestC01UnionAcrossManagers(t *testing.T) {
	srvs := []*c01GateSrv{
		{name: "s1"},
		{name: "s2"},
		{name: "s3", arrived: make(chan uint64, 4), gate: make(chan struct{})},
	}
	addrs, closeServers := gorums.TestSetup(t, len(srvs), func(i int) gorums.ServerIface {
		srv := gorums.NewServer()
		RegisterConfigTestServer(srv, srvs[i])
		return srv
	})
	defer closeServers()

	newMgr := func() *Manager {
		return NewManager(
			gorums.WithDialTimeout(10*time.Second),
			gorums.WithGrpcDialOptions(
				grpc.WithBlock(),
				grpc.WithTransportCredentials(insecure.NewCredentials()),
			),
		)
	}
	mgrA, mgrB := newMgr(), newMgr()
	defer mgrA.Close()
	defer mgrB.Close()

	qA := &c01EchoQSpec{need: 2}
	cfgA, err := mgrA.NewConfiguration(qA, gorums.WithNodeMap(map[string]uint32{addrs[0]: 1, addrs[1]: 2}))
	if err != nil {
		t.Fatal(err)
	}
	qB := &c01EchoQSpec{need: 1}
	cfgB, err := mgrB.NewConfiguration(qB, gorums.WithNodeMap(map[string]uint32{addrs[2]: 3}))
	if err != nil {
		t.Fatal(err)
	}
	qAB := &c01EchoQSpec{need: 3}
	cfgAB, err := mgrA.NewConfiguration(qAB, cfgA.And(cfgB))
	if err != nil {
		t.Fatal(err)
	}

	ctx, cancel := context.WithTimeout(context.Background(), 8*time.Second)
	defer cancel()

	type result struct {
		resp *Response
		err  error
	}
	resAB, resB := make(chan result, 1), make(chan result, 1)
	go func() {
		resp, err := cfgAB.Config(ctx, &Request{Num: 100})
		resAB <- result{resp, err}
	}()
	// wait until s3 holds the union's request, then start the other call
	select {
	case num := <-srvs[2].arrived:
		if num != 100 {
			t.Fatalf("s3 got request %d first, want 100", num)
		}
	case <-ctx.Done():
		t.Fatal("s3 did not get the union's request")
	}
	go func() {
		resp, err := cfgB.Config(ctx, &Request{Num: 200})
		resB <- result{resp, err}
	}()
	select {
	case <-srvs[2].arrived:
	case <-ctx.Done():
		t.Fatal("s3 did not get the second request")
	}
	close(srvs[2].gate)

	for name, ch := range map[string]chan result{"union": resAB, "second manager": resB} {
		select {
		case r := <-ch:
			if r.err != nil {
				t.Errorf("call on %s: %v", name, r.err)
			}
		case <-time.After(12 * time.Second):
			t.Errorf("call on %s did not return", name)
		}
	}
	for _, q := range []*c01EchoQSpec{qA, qB, qAB} {
		q.mu.Lock()
		for _, b := range q.bad {
			t.Errorf("foreign reply: %s", b)
		}
		q.mu.Unlock()
	}
}
