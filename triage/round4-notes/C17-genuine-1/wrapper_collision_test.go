package gengorums

import (
	"go/ast"
	"go/parser"
	"go/printer"
	"go/token"
	"strings"
	"testing"

	"github.com/relab/gorums"
	"google.golang.org/protobuf/compiler/protogen"
	"google.golang.org/protobuf/proto"
	"google.golang.org/protobuf/reflect/protodesc"
	"google.golang.org/protobuf/types/descriptorpb"
	"google.golang.org/protobuf/types/known/emptypb"
	"google.golang.org/protobuf/types/pluginpb"
)

func g1Message(name string) *descriptorpb.DescriptorProto {
	return &descriptorpb.DescriptorProto{
		Name: proto.String(name),
		Field: []*descriptorpb.FieldDescriptorProto{{
			Name:     proto.String("value"),
			Number:   proto.Int32(1),
			Label:    descriptorpb.FieldDescriptorProto_LABEL_OPTIONAL.Enum(),
			Type:     descriptorpb.FieldDescriptorProto_TYPE_STRING.Enum(),
			JsonName: proto.String("value"),
		}},
	}
}

func g1Method(name, in, out string, serverStream bool, o *descriptorpb.MethodOptions) *descriptorpb.MethodDescriptorProto {
	m := &descriptorpb.MethodDescriptorProto{
		Name:       proto.String(name),
		InputType:  proto.String(in),
		OutputType: proto.String(out),
		Options:    o,
	}
	if serverStream {
		m.ServerStreaming = proto.Bool(true)
	}
	return m
}

func g1Generate(t *testing.T, file *descriptorpb.FileDescriptorProto) string {
	t.Helper()
	gen, err := protogen.Options{}.New(&pluginpb.CodeGeneratorRequest{
		FileToGenerate: []string{file.GetName()},
		Parameter:      proto.String("paths=source_relative"),
		ProtoFile: []*descriptorpb.FileDescriptorProto{
			protodesc.ToFileDescriptorProto(descriptorpb.File_google_protobuf_descriptor_proto),
			protodesc.ToFileDescriptorProto(emptypb.File_google_protobuf_empty_proto),
			protodesc.ToFileDescriptorProto(gorums.File_gorums_proto),
			file,
		},
	})
	if err != nil {
		t.Fatal(err)
	}
	for _, f := range gen.Files {
		if f.Generate {
			GenerateFile(gen, f)
		}
	}
	resp := gen.Response()
	if resp.Error != nil {
		t.Fatal(resp.GetError())
	}
	if len(resp.File) != 1 {
		t.Fatalf("generated %d files, want 1", len(resp.File))
	}
	return resp.File[0].GetContent()
}

// g1Check checks, for each of the given async/correctable methods, that the
// object the stub returns hands out the type that the method's quorum function
// produces: the runtime stores the quorum function's result in the object, and
// the object's Get method asserts it to the type in Get's signature.
func g1Check(t *testing.T, src string, methods ...string) {
	t.Helper()
	fset := token.NewFileSet()
	f, err := parser.ParseFile(fset, "x_gorums.pb.go", src, 0)
	if err != nil {
		t.Fatalf("generated code does not parse: %v", err)
	}
	str := func(e ast.Expr) string {
		var b strings.Builder
		_ = printer.Fprint(&b, fset, e)
		return b.String()
	}
	qfResult := map[string]string{}
	stubResult := map[string]string{}
	getResult := map[string]string{}
	for _, decl := range f.Decls {
		switch d := decl.(type) {
		case *ast.GenDecl:
			for _, spec := range d.Specs {
				ts, ok := spec.(*ast.TypeSpec)
				if !ok || ts.Name.Name != "QuorumSpec" {
					continue
				}
				for _, m := range ts.Type.(*ast.InterfaceType).Methods.List {
					if ft, ok := m.Type.(*ast.FuncType); ok && len(m.Names) == 1 {
						qfResult[strings.TrimSuffix(m.Names[0].Name, "QF")] = str(ft.Results.List[0].Type)
					}
				}
			}
		case *ast.FuncDecl:
			if d.Recv == nil || d.Type.Results == nil {
				continue
			}
			recv := strings.TrimPrefix(str(d.Recv.List[0].Type), "*")
			res := str(d.Type.Results.List[0].Type)
			if recv == "Configuration" {
				stubResult[d.Name.Name] = strings.TrimPrefix(res, "*")
			} else if d.Name.Name == "Get" {
				getResult[recv] = res
			}
		}
	}
	for _, method := range methods {
		qf, wrapper := qfResult[method], stubResult[method]
		if qf == "" || wrapper == "" {
			t.Errorf("%s: quorum function or stub not found (QF result %q, stub result %q)", method, qf, wrapper)
			continue
		}
		if get := getResult[wrapper]; get != qf {
			t.Errorf("%s: the quorum function returns %s, but the stub returns a %s whose Get asserts the result to %s",
				method, qf, wrapper, get)
		}
	}
}

// A message named Empty of the package itself, and google.protobuf.Empty,
// as the reply types of two asynchronous quorum calls: both get AsyncEmpty.
//
//	rpc Ping(Request) returns (Empty)                   { quorumcall, async }
//	rpc Flush(Request) returns (google.protobuf.Empty) { quorumcall, async }
func TestGenuineAsyncWrapperOfSameNamedReplyTypes(t *testing.T) {
	async := &descriptorpb.MethodOptions{}
	proto.SetExtension(async, gorums.E_Quorumcall, true)
	proto.SetExtension(async, gorums.E_Async, true)
	src := g1Generate(t, &descriptorpb.FileDescriptorProto{
		Name:        proto.String("ctl/ctl.proto"),
		Package:     proto.String("ctl"),
		Syntax:      proto.String("proto3"),
		Dependency:  []string{"gorums.proto", "google/protobuf/empty.proto"},
		Options:     &descriptorpb.FileOptions{GoPackage: proto.String("example.com/ctl")},
		MessageType: []*descriptorpb.DescriptorProto{g1Message("Request"), g1Message("Empty")},
		Service: []*descriptorpb.ServiceDescriptorProto{{
			Name: proto.String("Ctl"),
			Method: []*descriptorpb.MethodDescriptorProto{
				g1Method("Ping", ".ctl.Request", ".ctl.Empty", false, async),
				g1Method("Flush", ".ctl.Request", ".google.protobuf.Empty", false, async),
			},
		}},
	})
	g1Check(t, src, "Ping", "Flush")
}

// "Correctable"+"StreamReply" and "CorrectableStream"+"Reply" are the same name:
//
//	rpc Tail(Request) returns (StreamReply)    { correctable }
//	rpc Follow(Request) returns (stream Reply) { correctable }
func TestGenuineCorrectableWrapperPrefixAmbiguity(t *testing.T) {
	corr := &descriptorpb.MethodOptions{}
	proto.SetExtension(corr, gorums.E_Correctable, true)
	src := g1Generate(t, &descriptorpb.FileDescriptorProto{
		Name:        proto.String("log/log.proto"),
		Package:     proto.String("log"),
		Syntax:      proto.String("proto3"),
		Dependency:  []string{"gorums.proto"},
		Options:     &descriptorpb.FileOptions{GoPackage: proto.String("example.com/log")},
		MessageType: []*descriptorpb.DescriptorProto{g1Message("Request"), g1Message("Reply"), g1Message("StreamReply")},
		Service: []*descriptorpb.ServiceDescriptorProto{{
			Name: proto.String("Log"),
			Method: []*descriptorpb.MethodDescriptorProto{
				g1Method("Tail", ".log.Request", ".log.StreamReply", false, corr),
				g1Method("Follow", ".log.Request", ".log.Reply", true, corr),
			},
		}},
	})
	g1Check(t, src, "Tail", "Follow")
}
