package gengorums

import (
	"bytes"
	"context"
	"os"
	"os/exec"
	"path/filepath"
	"strings"
	"testing"
	"time"

	"github.com/relab/gorums"
	gengo "google.golang.org/protobuf/cmd/protoc-gen-go/internal_gengo"
	"google.golang.org/protobuf/compiler/protogen"
	"google.golang.org/protobuf/proto"
	"google.golang.org/protobuf/reflect/protodesc"
	"google.golang.org/protobuf/reflect/protoreflect"
	"google.golang.org/protobuf/types/descriptorpb"
	"google.golang.org/protobuf/types/known/emptypb"
	"google.golang.org/protobuf/types/pluginpb"
)

// TestNonReservedNamesAreAccepted feeds the plugin services that use only
// names that are not reserved (and not Go keywords), in places where the
// documentation puts no restriction on them: the name of an rpc, the name of
// a message, and the name of the Go package that imported messages live in.
// For every input the plugin has to terminate with either a diagnostic or
// output that compiles together with the protoc-gen-go message code.
func TestNonReservedNamesAreAccepted(t *testing.T) {
	ctx, cancel := context.WithTimeout(context.Background(), gn2Budget)
	defer cancel()

	root, imp := gn2Scratch(t)
	x := func(kv ...interface{}) map[protoreflect.ExtensionType]interface{} {
		m := make(map[protoreflect.ExtensionType]interface{})
		for i := 0; i < len(kv); i += 2 {
			m[kv[i].(protoreflect.ExtensionType)] = kv[i+1]
		}
		return m
	}
	bin := gn2BuildPlugin(ctx, t)

	tests := []struct {
		name     string
		generate []string
		files    func(dir, goPkg string) []*descriptorpb.FileDescriptorProto
	}{
		{
			// the static code declares func (c *Configuration) Nodes() []*Node
			name:     "quorumcall_named_Nodes",
			generate: []string{"quorumcall_named_nodes/storage.proto"},
			files: func(dir, goPkg string) []*descriptorpb.FileDescriptorProto {
				return []*descriptorpb.FileDescriptorProto{gn2File(dir+"/storage.proto", "storage", goPkg, []string{"gorums.proto"},
					[]string{"Request", "Response"}, "Storage", []gn2Method{
						{name: "Nodes", in: ".storage.Request", out: ".storage.Response", opts: x(gorums.E_Quorumcall, true)},
					})}
			},
		},
		{
			// the generated client methods have a parameter `in` and closures with a parameter `req`
			name:     "messages_imported_from_package_req",
			generate: []string{"messages_imported_from_package_req/req/req.proto", "messages_imported_from_package_req/storage.proto"},
			files: func(dir, goPkg string) []*descriptorpb.FileDescriptorProto {
				types := gn2File(dir+"/req/req.proto", "req", goPkg+"/req", nil, []string{"Read", "State"}, "", nil)
				fd := gn2File(dir+"/storage.proto", "storage", goPkg, []string{"gorums.proto", dir + "/req/req.proto"},
					[]string{"Unused"}, "Storage", []gn2Method{
						{name: "Read", in: ".req.Read", out: ".req.State", opts: x(gorums.E_Quorumcall, true)},
					})
				return []*descriptorpb.FileDescriptorProto{types, fd}
			},
		},
		{
			// the data-type template declares type Async<Reply> for an async call
			name:     "message_named_AsyncResponse",
			generate: []string{"message_named_asyncresponse/storage.proto"},
			files: func(dir, goPkg string) []*descriptorpb.FileDescriptorProto {
				return []*descriptorpb.FileDescriptorProto{gn2File(dir+"/storage.proto", "storage", goPkg, []string{"gorums.proto"},
					[]string{"Request", "Response", "AsyncResponse"}, "Storage", []gn2Method{
						{name: "Read", in: ".storage.Request", out: ".storage.Response", opts: x(gorums.E_Quorumcall, true, gorums.E_Async, true)},
						{name: "Poll", in: ".storage.Request", out: ".storage.AsyncResponse", opts: x(gorums.E_Quorumcall, true)},
					})}
			},
		},
	}
	for _, test := range tests {
		test := test
		t.Run(test.name, func(t *testing.T) {
			dir := strings.ToLower(test.name)
			files := test.files(dir, imp+"/"+dir)
			req := gn2Request(test.generate, files...)
			stdout, stderr, exit := gn2RunPlugin(ctx, t, bin, req)
			if exit != 0 {
				t.Logf("rejected with a diagnostic: %s", stderr)
				return
			}
			resp := gn2Response(t, stdout)
			if resp.Error != nil {
				t.Logf("rejected with a diagnostic: %s", resp.GetError())
				return
			}
			if out, err := gn2Compile(ctx, t, root, resp, gn2MessageCode(t, req)); err != nil {
				t.Errorf("the plugin exited with status 0 and no diagnostic, but its output does not compile:\n%s", out)
			}
		})
	}
}

// ---- harness: drive the plugin as protoc would ---------------------------

// gn2Budget bounds the whole test: a hang becomes a failure.
const gn2Budget = 55 * time.Second

// gn2Method describes one rpc of the service under test.
type gn2Method struct {
	name         string
	in, out      string // fully-qualified proto names, e.g. ".demo.Request"
	clientStream bool
	serverStream bool
	opts         map[protoreflect.ExtensionType]interface{}
}

func gn2MethodProto(m gn2Method) *descriptorpb.MethodDescriptorProto {
	md := &descriptorpb.MethodDescriptorProto{
		Name:       proto.String(m.name),
		InputType:  proto.String(m.in),
		OutputType: proto.String(m.out),
	}
	if m.clientStream {
		md.ClientStreaming = proto.Bool(true)
	}
	if m.serverStream {
		md.ServerStreaming = proto.Bool(true)
	}
	if len(m.opts) > 0 {
		o := &descriptorpb.MethodOptions{}
		for x, v := range m.opts {
			proto.SetExtension(o, x, v)
		}
		md.Options = o
	}
	return md
}

func gn2Msg(name string) *descriptorpb.DescriptorProto {
	return &descriptorpb.DescriptorProto{
		Name: proto.String(name),
		Field: []*descriptorpb.FieldDescriptorProto{{
			Name:     proto.String("value"),
			JsonName: proto.String("value"),
			Number:   proto.Int32(1),
			Label:    descriptorpb.FieldDescriptorProto_LABEL_OPTIONAL.Enum(),
			Type:     descriptorpb.FieldDescriptorProto_TYPE_STRING.Enum(),
		}},
	}
}

// gn2File builds a proto3 file with the given messages and (optionally) one service.
func gn2File(name, pkg, goPkg string, deps, msgs []string, svc string, methods []gn2Method) *descriptorpb.FileDescriptorProto {
	fd := &descriptorpb.FileDescriptorProto{
		Name:       proto.String(name),
		Package:    proto.String(pkg),
		Syntax:     proto.String("proto3"),
		Dependency: deps,
		Options:    &descriptorpb.FileOptions{GoPackage: proto.String(goPkg)},
	}
	for _, m := range msgs {
		fd.MessageType = append(fd.MessageType, gn2Msg(m))
	}
	if svc != "" {
		sd := &descriptorpb.ServiceDescriptorProto{Name: proto.String(svc)}
		for _, m := range methods {
			sd.Method = append(sd.Method, gn2MethodProto(m))
		}
		fd.Service = append(fd.Service, sd)
	}
	return fd
}

// gn2Request builds the request protoc would send: all files in dependency
// order, and the names of the files to generate code for.
func gn2Request(generate []string, files ...*descriptorpb.FileDescriptorProto) *pluginpb.CodeGeneratorRequest {
	req := &pluginpb.CodeGeneratorRequest{FileToGenerate: generate}
	req.ProtoFile = append(req.ProtoFile,
		protodesc.ToFileDescriptorProto(descriptorpb.File_google_protobuf_descriptor_proto),
		protodesc.ToFileDescriptorProto(gorums.File_gorums_proto),
		protodesc.ToFileDescriptorProto(emptypb.File_google_protobuf_empty_proto),
	)
	req.ProtoFile = append(req.ProtoFile, files...)
	return req
}

// gn2BuildPlugin builds cmd/protoc-gen-gorums from the tree under test.
func gn2BuildPlugin(ctx context.Context, t *testing.T) string {
	t.Helper()
	bin := filepath.Join(t.TempDir(), "protoc-gen-gorums")
	cmd := exec.CommandContext(ctx, "go", "build", "-o", bin, "github.com/relab/gorums/cmd/protoc-gen-gorums")
	if out, err := cmd.CombinedOutput(); err != nil {
		t.Fatalf("building the plugin: %v\n%s", err, out)
	}
	return bin
}

// gn2RunPlugin runs the plugin binary with the request on stdin, as protoc does.
// It returns the raw response bytes, what was written to stderr and the exit status.
func gn2RunPlugin(ctx context.Context, t *testing.T, bin string, req *pluginpb.CodeGeneratorRequest) (stdout []byte, stderr string, exit int) {
	t.Helper()
	in, err := proto.Marshal(req)
	if err != nil {
		t.Fatal(err)
	}
	cmd := exec.CommandContext(ctx, bin)
	cmd.Stdin = bytes.NewReader(in)
	var so, se bytes.Buffer
	cmd.Stdout, cmd.Stderr = &so, &se
	err = cmd.Run()
	if ctx.Err() != nil {
		t.Fatalf("the plugin did not terminate: %v", ctx.Err())
	}
	if err != nil {
		ee, ok := err.(*exec.ExitError)
		if !ok {
			t.Fatal(err)
		}
		return so.Bytes(), se.String(), ee.ExitCode()
	}
	return so.Bytes(), se.String(), 0
}

func gn2Response(t *testing.T, stdout []byte) *pluginpb.CodeGeneratorResponse {
	t.Helper()
	resp := &pluginpb.CodeGeneratorResponse{}
	if err := proto.Unmarshal(stdout, resp); err != nil {
		t.Fatalf("the plugin wrote a malformed response: %v", err)
	}
	return resp
}

// gn2MessageCode runs protoc-gen-go (as a library) on the same request; it
// yields the standard message code that the Gorums output has to compile with.
func gn2MessageCode(t *testing.T, req *pluginpb.CodeGeneratorRequest) *pluginpb.CodeGeneratorResponse {
	t.Helper()
	gen, err := protogen.Options{}.New(req)
	if err != nil {
		t.Fatal(err)
	}
	for _, f := range gen.Files {
		if f.Generate {
			gengo.GenerateFile(gen, f)
		}
	}
	return gen.Response()
}

const gn2Module = "github.com/relab/gorums"

// gn2Scratch creates a scratch directory below the module root (so that the
// generated packages resolve their imports through the module under test) and
// returns the module root and the import path of the scratch directory.
func gn2Scratch(t *testing.T) (root, importPath string) {
	t.Helper()
	wd, err := os.Getwd()
	if err != nil {
		t.Fatal(err)
	}
	root = filepath.Clean(filepath.Join(wd, "..", "..", ".."))
	if _, err := os.Stat(filepath.Join(root, "go.mod")); err != nil {
		t.Fatalf("module root not found: %v", err)
	}
	dir, err := os.MkdirTemp(wd, "zz_generated_")
	if err != nil {
		t.Fatal(err)
	}
	t.Cleanup(func() { os.RemoveAll(dir) })
	rel, err := filepath.Rel(root, dir)
	if err != nil {
		t.Fatal(err)
	}
	return root, gn2Module + "/" + filepath.ToSlash(rel)
}

// gn2Compile writes the files of the responses below the module root and
// builds the packages they belong to. It returns the compiler output.
func gn2Compile(ctx context.Context, t *testing.T, root string, resps ...*pluginpb.CodeGeneratorResponse) (string, error) {
	t.Helper()
	pkgs := map[string]bool{}
	for _, r := range resps {
		if r.Error != nil {
			t.Fatalf("generator error: %s", r.GetError())
		}
		for _, f := range r.File {
			name := f.GetName()
			if !strings.HasPrefix(name, gn2Module+"/") {
				t.Fatalf("unexpected output file name %s", name)
			}
			rel := strings.TrimPrefix(name, gn2Module+"/")
			dst := filepath.Join(root, filepath.FromSlash(rel))
			if err := os.MkdirAll(filepath.Dir(dst), 0o755); err != nil {
				t.Fatal(err)
			}
			if err := os.WriteFile(dst, []byte(f.GetContent()), 0o644); err != nil {
				t.Fatal(err)
			}
			pkgs["./"+filepath.ToSlash(filepath.Dir(rel))] = true
		}
	}
	args := []string{"build"}
	for p := range pkgs {
		args = append(args, p)
	}
	cmd := exec.CommandContext(ctx, "go", args...)
	cmd.Dir = root
	out, err := cmd.CombinedOutput()
	if ctx.Err() != nil {
		t.Fatalf("go build did not finish: %v", ctx.Err())
	}
	return string(out), err
}
