package correctable

import (
	"context"
	"errors"
	"sync"
	"testing"
	"time"

	"github.com/relab/gorums"
	"google.golang.org/grpc"
	"google.golang.org/grpc/credentials/insecure"
	"google.golang.org/grpc/status"
)

// sqGatedStream is a client stream whose writes do not complete until the gate
// is opened or the stream is cancelled. It stands for a write that is blocked
// by flow control because the peer does not read.
type sqGatedStream struct {
	grpc.ClientStream
	gate    <-chan struct{}
	entered chan<- struct{}
}

func (s *sqGatedStream) SendMsg(m interface{}) error {
	select {
	case s.entered <- struct{}{}:
	default:
	}
	select {
	case <-s.gate:
	case <-s.Context().Done():
		return status.FromContextError(s.Context().Err()).Err()
	}
	return s.ClientStream.SendMsg(m)
}

// sqStreamSrv streams replies until its context ends.
type sqStreamSrv struct{}

func (sqStreamSrv) CorrectableStream(ctx gorums.ServerCtx, _ *CorrectableRequest, send func(*CorrectableResponse) error) error {
	for i := 1; i <= 1000; i++ {
		if err := send(&CorrectableResponse{Level: int32(i)}); err != nil {
			return err
		}
	}
	return nil
}

func (sqStreamSrv) Correctable(_ gorums.ServerCtx, _ *CorrectableRequest) (*CorrectableResponse, error) {
	return &CorrectableResponse{Level: 1}, nil
}

type sqSpec struct{}

func (sqSpec) CorrectableQF(_ *CorrectableRequest, replies map[uint32]*CorrectableResponse) (*CorrectableResponse, int, bool) {
	return nil, len(replies), false
}

func (sqSpec) CorrectableStreamQF(_ *CorrectableRequest, replies map[uint32]*CorrectableResponse) (*CorrectableResponse, int, bool) {
	var lvl int32
	for _, r := range replies {
		lvl += r.Level
	}
	return &CorrectableResponse{Level: lvl}, int(lvl), false
}

// A server-stream correctable call on two nodes. The first node streams its
// replies at once. The sender of the second node is busy with an earlier,
// patient call whose write does not complete (the node does not read), so the
// call waits for the second node's send queue until its context ends.
// The call must return, and complete, soon after its deadline.
func TestCorrectableStreamContextEndsWhileQueued(t *testing.T) {
	addrs, teardown := gorums.TestSetup(t, 2, func(_ int) gorums.ServerIface {
		srv := gorums.NewServer()
		RegisterCorrectableTestServer(srv, sqStreamSrv{})
		return srv
	})
	defer teardown()

	gate := make(chan struct{})
	entered := make(chan struct{}, 1)
	var once sync.Once
	openGate := func() { once.Do(func() { close(gate) }) }
	defer openGate()

	blocked := addrs[1]
	mgr := NewManager(
		gorums.WithDialTimeout(2*time.Second),
		gorums.WithGrpcDialOptions(
			grpc.WithBlock(),
			grpc.WithTransportCredentials(insecure.NewCredentials()),
			grpc.WithStreamInterceptor(func(ctx context.Context, desc *grpc.StreamDesc, cc *grpc.ClientConn, method string, streamer grpc.Streamer, opts ...grpc.CallOption) (grpc.ClientStream, error) {
				cs, err := streamer(ctx, desc, cc, method, opts...)
				if err != nil || cc.Target() != blocked {
					return cs, err
				}
				return &sqGatedStream{ClientStream: cs, gate: gate, entered: entered}, nil
			}),
		),
	)
	defer mgr.Close()

	// node 1 streams, node 2 does not take writes; the configuration is ordered by ID
	cfg, err := mgr.NewConfiguration(sqSpec{}, gorums.WithNodeMap(map[string]uint32{addrs[0]: 1, addrs[1]: 2}))
	if err != nil {
		t.Fatal(err)
	}
	second, err := mgr.NewConfiguration(sqSpec{}, gorums.WithNodeIDs([]uint32{2}))
	if err != nil {
		t.Fatal(err)
	}

	// a patient call keeps the sender of node 2 busy
	patientCtx, patientCancel := context.WithCancel(context.Background())
	defer patientCancel()
	second.Correctable(patientCtx, &CorrectableRequest{})
	select {
	case <-entered:
	case <-time.After(10 * time.Second):
		t.Fatal("setup: the write to node 2 did not start")
	}

	const timeout = 500 * time.Millisecond
	const margin = 5 * time.Second
	ctx, cancel := context.WithTimeout(context.Background(), timeout)
	defer cancel()

	returned := make(chan *CorrectableStreamCorrectableResponse, 1)
	go func() { returned <- cfg.CorrectableStream(ctx, &CorrectableRequest{}) }()

	var corr *CorrectableStreamCorrectableResponse
	select {
	case corr = <-returned:
	case <-time.After(timeout + margin):
		t.Fatalf("CorrectableStream has not returned %v after its deadline", margin)
	}
	select {
	case <-corr.Done():
	case <-time.After(timeout + margin):
		t.Fatalf("the correctable has not completed %v after its deadline", margin)
	}
	if _, _, err := corr.Get(); err == nil || !errors.Is(err, ctx.Err()) {
		t.Errorf("Get() error = %v, want an error matching %v", err, ctx.Err())
	}
}
