package gorums_test

import (
	"context"
	"fmt"
	"sync"
	"testing"
	"time"

	"github.com/relab/gorums"
	"github.com/relab/gorums/tests/mock"
	"google.golang.org/grpc"
	"google.golang.org/grpc/credentials/insecure"
	"google.golang.org/grpc/encoding"
	"google.golang.org/protobuf/proto"
	"google.golang.org/protobuf/reflect/protodesc"
	"google.golang.org/protobuf/reflect/protoreflect"
	"google.golang.org/protobuf/reflect/protoregistry"
	"google.golang.org/protobuf/types/descriptorpb"
)

const reuseMethod = "requse.Register.Write"

var registerReuseService sync.Once

func reuseSetup(t *testing.T) {
	t.Helper()
	registerReuseService.Do(func() {
		if encoding.GetCodec(gorums.ContentSubtype) == nil {
			encoding.RegisterCodec(gorums.NewCodec())
		}
		mockFile := (&mock.Request{}).ProtoReflect().Descriptor().ParentFile()
		fd := &descriptorpb.FileDescriptorProto{
			Name:       proto.String("requse/requse.proto"),
			Package:    proto.String("requse"),
			Syntax:     proto.String("proto3"),
			Dependency: []string{mockFile.Path()},
			Service: []*descriptorpb.ServiceDescriptorProto{{
				Name: proto.String("Register"),
				Method: []*descriptorpb.MethodDescriptorProto{{
					Name:       proto.String("Write"),
					InputType:  proto.String(".mock.Request"),
					OutputType: proto.String(".mock.Response"),
				}},
			}},
		}
		file, err := protodesc.NewFile(fd, protoregistry.GlobalFiles)
		if err != nil {
			t.Fatalf("protodesc.NewFile: %v", err)
		}
		if err := protoregistry.GlobalFiles.RegisterFile(file); err != nil {
			t.Fatalf("RegisterFile: %v", err)
		}
	})
}

// TestReuseRequestAfterQuorumCall makes majority quorum calls in a loop from a
// single goroutine and re-uses the request message between the calls: it sets
// the field of the request for the next call after the previous call has returned.
// It is meant to be run with -race.
func TestReuseRequestAfterQuorumCall(t *testing.T) {
	reuseSetup(t)
	const numNodes = 5
	addrs, teardown := gorums.TestSetup(t, numNodes, func(_ int) gorums.ServerIface {
		srv := gorums.NewServer()
		srv.RegisterHandler(reuseMethod, func(ctx gorums.ServerCtx, in *gorums.Message, finished chan<- *gorums.Message) {
			defer ctx.Release()
			req := in.Message.(*mock.Request)
			_ = gorums.SendMessage(ctx, finished, gorums.WrapMessage(in.Metadata, &mock.Response{Val: req.GetVal()}, nil))
		})
		return srv
	})
	defer teardown()

	mgr := gorums.NewRawManager(
		gorums.WithDialTimeout(10*time.Second),
		gorums.WithGrpcDialOptions(
			grpc.WithBlock(),
			grpc.WithTransportCredentials(insecure.NewCredentials()),
		),
	)
	defer mgr.Close()
	cfg, err := gorums.NewRawConfiguration(mgr, gorums.WithNodeList(addrs))
	if err != nil {
		t.Fatal(err)
	}

	ctx, cancel := context.WithTimeout(context.Background(), 40*time.Second)
	defer cancel()

	majority := func(_ protoreflect.ProtoMessage, replies map[uint32]protoreflect.ProtoMessage) (protoreflect.ProtoMessage, bool) {
		if len(replies) <= numNodes/2 {
			return nil, false
		}
		for _, r := range replies {
			return r, true
		}
		return nil, false
	}

	req := &mock.Request{}
	for i := 0; i < 300; i++ {
		// the previous call has returned; the request is the caller's again
		req.Val = fmt.Sprintf("value %d", i)
		resp, err := cfg.QuorumCall(ctx, gorums.QuorumCallData{
			Message:        req,
			Method:         reuseMethod,
			QuorumFunction: majority,
		})
		if err != nil {
			t.Fatalf("call %d: %v", i, err)
		}
		if got := resp.(*mock.Response).GetVal(); got != req.Val {
			t.Fatalf("call %d: got %q, want %q", i, got, req.Val)
		}
	}
}
