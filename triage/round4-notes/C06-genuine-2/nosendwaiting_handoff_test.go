package oneway_test

import (
	"context"
	"net"
	"testing"
	"time"

	"github.com/relab/gorums"
	"github.com/relab/gorums/tests/oneway"
	"google.golang.org/grpc"
	"google.golang.org/grpc/credentials/insecure"
)

// TestNoSendWaitingWaitsForDial: the node cannot be connected to (every dial
// attempt hangs until the dial timeout of 4 seconds). One-way calls with
// WithNoSendWaiting are documented, and promised by the property, to return
// without waiting for the connection. The first call returns at once, because
// the node's sender is idle and takes the request; the sender then dials. The
// second call has to hand its request to the sender, which is busy dialing,
// and with a context without deadline it waits for the whole dial attempt.
func TestNoSendWaitingWaitsForDial(t *testing.T) {
	const dialTimeout = 4 * time.Second
	mgr := oneway.NewManager(
		gorums.WithDialTimeout(dialTimeout),
		gorums.WithGrpcDialOptions(
			grpc.WithBlock(),
			grpc.WithTransportCredentials(insecure.NewCredentials()),
			grpc.WithContextDialer(func(ctx context.Context, _ string) (net.Conn, error) {
				<-ctx.Done() // a peer that does not answer
				return nil, ctx.Err()
			}),
		),
	)
	defer mgr.Close()
	// the first connection attempt is made here (and fails after the dial timeout)
	cfg, err := mgr.NewConfiguration(gorums.WithNodeList([]string{"127.0.0.1:9"}))
	if err != nil {
		t.Fatal(err)
	}
	node := cfg.Nodes()[0]

	timed := func(name string) time.Duration {
		t.Helper()
		start := time.Now()
		done := make(chan struct{})
		go func() {
			defer close(done)
			node.Unicast(context.Background(), &oneway.Request{Num: 1}, gorums.WithNoSendWaiting())
		}()
		select {
		case <-done:
		case <-time.After(20 * time.Second):
			t.Fatalf("%s did not return", name)
		}
		return time.Since(start)
	}
	if d := timed("first call"); d > time.Second {
		t.Errorf("first Unicast with WithNoSendWaiting took %v", d)
	}
	if d := timed("second call"); d > time.Second {
		t.Errorf("second Unicast with WithNoSendWaiting took %v: it waited for the sender's connection attempt (dial timeout %v)", d, dialTimeout)
	}
}
