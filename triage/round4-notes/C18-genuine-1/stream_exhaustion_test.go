package correctable

import (
	"context"
	"runtime"
	"strings"
	"sync/atomic"
	"testing"
	"time"

	"github.com/relab/gorums"
	"google.golang.org/grpc"
	"google.golang.org/grpc/credentials/insecure"
)

// Every node answers a server-stream correctable call completely: its handler
// sends two replies and returns nil. The quorum function is not satisfied by
// them (it wants a level that no node reports). With a plain correctable call
// this is exhaustion: the call completes with an "incomplete call" error. The
// server-stream call has a context that never ends; nothing is outstanding any
// more, so the call should complete, its goroutine should end and its routers
// should go.

const (
	exNodes   = 2
	exReplies = 2
)

type exSrv struct{ returned *atomic.Int32 }

func (s exSrv) CorrectableStream(_ gorums.ServerCtx, _ *CorrectableRequest, send func(*CorrectableResponse) error) error {
	defer s.returned.Add(1)
	for i := 1; i <= exReplies; i++ {
		if err := send(&CorrectableResponse{Level: int32(i)}); err != nil {
			return err
		}
	}
	return nil
}

func (s exSrv) Correctable(_ gorums.ServerCtx, _ *CorrectableRequest) (*CorrectableResponse, error) {
	return &CorrectableResponse{Level: 1}, nil
}

type exQSpec struct{ seen *atomic.Int32 }

func (q exQSpec) qf(replies map[uint32]*CorrectableResponse) (*CorrectableResponse, int, bool) {
	sum := 0
	for _, r := range replies {
		sum += int(r.GetLevel())
	}
	q.seen.Store(int32(sum))
	return &CorrectableResponse{Level: int32(sum)}, sum, false // never done
}

func (q exQSpec) CorrectableStreamQF(_ *CorrectableRequest, replies map[uint32]*CorrectableResponse) (*CorrectableResponse, int, bool) {
	return q.qf(replies)
}

func (q exQSpec) CorrectableQF(_ *CorrectableRequest, replies map[uint32]*CorrectableResponse) (*CorrectableResponse, int, bool) {
	return q.qf(replies)
}

func exCallGoroutines() (n int) {
	buf := make([]byte, 4<<20)
	buf = buf[:runtime.Stack(buf, true)]
	for _, g := range strings.Split(string(buf), "\n\n") {
		if strings.Contains(g, "handleCorrectableCall") {
			n++
		}
	}
	return n
}

func TestStreamCallWhoseNodesHaveAllFinished(t *testing.T) {
	var returned, seen atomic.Int32
	addrs, teardown := gorums.TestSetup(t, exNodes, func(_ int) gorums.ServerIface {
		gorumsSrv := gorums.NewServer()
		RegisterCorrectableTestServer(gorumsSrv, exSrv{&returned})
		return gorumsSrv
	})
	defer teardown()

	mgr := NewManager(
		gorums.WithDialTimeout(5*time.Second),
		gorums.WithGrpcDialOptions(
			grpc.WithBlock(),
			grpc.WithTransportCredentials(insecure.NewCredentials()),
		),
	)
	defer mgr.Close()
	cfg, err := mgr.NewConfiguration(exQSpec{&seen}, gorums.WithNodeList(addrs))
	if err != nil {
		t.Fatal(err)
	}

	// reference: the plain correctable call is exhausted and completes
	plain := cfg.Correctable(context.Background(), &CorrectableRequest{})
	select {
	case <-plain.Done():
		if _, _, err := plain.Get(); err == nil {
			t.Error("plain correctable call: want an 'incomplete call' error")
		}
	case <-time.After(10 * time.Second):
		t.Fatal("plain correctable call: not completed although all nodes have answered")
	}

	corr := cfg.CorrectableStream(context.Background(), &CorrectableRequest{})

	// wait until all handlers have returned and all replies have reached the quorum function
	deadline := time.Now().Add(10 * time.Second)
	for (returned.Load() < exNodes || seen.Load() < exNodes*exReplies) && time.Now().Before(deadline) {
		time.Sleep(20 * time.Millisecond)
	}
	if returned.Load() < exNodes || seen.Load() < exNodes*exReplies {
		t.Fatalf("test setup: %d handlers returned, level sum %d", returned.Load(), seen.Load())
	}

	select {
	case <-corr.Done():
	case <-time.After(5 * time.Second):
		t.Errorf("server-stream call: not completed 5 s after every node has sent all its replies and its handler has returned; %d goroutine(s) in handleCorrectableCall", exCallGoroutines())
	}
}
