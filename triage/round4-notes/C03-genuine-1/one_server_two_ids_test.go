package ordering

// One server, named twice in the node options of one manager: once with an
// application-chosen ID (WithNodeMap) and once by address only (WithNodeList,
// where the ID is derived from the address). The manager keeps two nodes, with
// two connections, for the one server; a configuration that combines both
// options contains the server twice, and the server starts the handler of
// every call on that configuration twice.

import (
	"context"
	"testing"
	"time"

	"github.com/relab/gorums"
	"google.golang.org/grpc"
	"google.golang.org/grpc/credentials/insecure"
)

type twoIDsSrv struct{ arrived chan uint64 }

func (s *twoIDsSrv) QC(_ gorums.ServerCtx, req *Request) (*Response, error) {
	s.arrived <- req.GetNum()
	return &Response{InOrder: true}, nil
}

func (s *twoIDsSrv) QCAsync(_ gorums.ServerCtx, req *Request) (*Response, error) {
	s.arrived <- req.GetNum()
	return &Response{InOrder: true}, nil
}

func (s *twoIDsSrv) UnaryRPC(_ gorums.ServerCtx, req *Request) (*Response, error) {
	s.arrived <- req.GetNum()
	return &Response{InOrder: true}, nil
}

// twoIDsQSpec waits for a reply from every node of the configuration.
type twoIDsQSpec struct{ cfgSize func() int }

func (q twoIDsQSpec) QCQF(_ *Request, replies map[uint32]*Response) (*Response, bool) {
	if len(replies) < q.cfgSize() {
		return nil, false
	}
	return &Response{InOrder: true}, true
}

func (q twoIDsQSpec) QCAsyncQF(in *Request, replies map[uint32]*Response) (*Response, bool) {
	return q.QCQF(in, replies)
}

func TestOneServerUnderTwoNodeIDs(t *testing.T) {
	impl := &twoIDsSrv{arrived: make(chan uint64, 16)}
	addrs, stopServers := gorums.TestSetup(t, 1, func(_ int) gorums.ServerIface {
		srv := gorums.NewServer()
		RegisterGorumsTestServer(srv, impl)
		return srv
	})
	defer stopServers()

	mgr := NewManager(
		gorums.WithDialTimeout(10*time.Second),
		gorums.WithGrpcDialOptions(
			grpc.WithBlock(),
			grpc.WithTransportCredentials(insecure.NewCredentials()),
		),
	)
	defer mgr.Close()

	size := 1
	qspec := twoIDsQSpec{cfgSize: func() int { return size }}
	c1, err := mgr.NewConfiguration(qspec, gorums.WithNodeMap(map[string]uint32{addrs[0]: 1}))
	if err != nil {
		t.Fatal(err)
	}
	// "add" the same server, this time by address only
	c2, err := mgr.NewConfiguration(qspec, c1.WithNewNodes(gorums.WithNodeList(addrs)))
	if err != nil {
		t.Fatal(err)
	}
	size = c2.Size()
	if size != 1 {
		t.Errorf("configuration of one server (%s) has %d nodes: %v", addrs[0], size, c2.NodeIDs())
	}

	ctx, cancel := context.WithTimeout(context.Background(), 20*time.Second)
	defer cancel()
	if _, err = c2.QC(ctx, &Request{Num: 7}); err != nil {
		t.Fatal(err)
	}
	// allow for the scheduling of a handler goroutine
	time.Sleep(300 * time.Millisecond)
	if n := len(impl.arrived); n != 1 {
		t.Errorf("the client made one call; the server started its handler %d times", n)
	}
}
