package gengorums

import (
	"bytes"
	"context"
	"os"
	"os/exec"
	"path/filepath"
	"strings"
	"testing"
	"time"

	"github.com/relab/gorums"
	gengo "google.golang.org/protobuf/cmd/protoc-gen-go/internal_gengo"
	"google.golang.org/protobuf/compiler/protogen"
	"google.golang.org/protobuf/proto"
	"google.golang.org/protobuf/reflect/protodesc"
	"google.golang.org/protobuf/reflect/protoreflect"
	"google.golang.org/protobuf/types/descriptorpb"
	"google.golang.org/protobuf/types/known/emptypb"
	"google.golang.org/protobuf/types/pluginpb"
)

// TestReservedNamesOutsideTheMessagesOfTheFile feeds the plugin inputs in
// which an identifier of the static code (Node, Manager, ...) is declared a
// second time in the generated package, but not by a top-level message of the
// file that holds the service. For every input the plugin has to terminate
// with either a diagnostic or output that compiles together with the
// protoc-gen-go message code.
func TestReservedNamesOutsideTheMessagesOfTheFile(t *testing.T) {
	ctx, cancel := context.WithTimeout(context.Background(), gn1Budget)
	defer cancel()

	root, imp := gn1Scratch(t)
	x := func(kv ...interface{}) map[protoreflect.ExtensionType]interface{} {
		m := make(map[protoreflect.ExtensionType]interface{})
		for i := 0; i < len(kv); i += 2 {
			m[kv[i].(protoreflect.ExtensionType)] = kv[i+1]
		}
		return m
	}
	bin := gn1BuildPlugin(ctx, t)
	read := gn1Method{name: "Read", in: ".storage.Request", out: ".storage.Response", opts: x(gorums.E_Quorumcall, true)}

	tests := []struct {
		name     string
		generate []string
		files    func(goPkg string) []*descriptorpb.FileDescriptorProto
	}{
		{
			// protoc-gen-go declares `type Node int32` for a top-level enum
			name:     "enum_named_Node",
			generate: []string{"enum_named_Node/storage.proto"},
			files: func(goPkg string) []*descriptorpb.FileDescriptorProto {
				fd := gn1File("enum_named_Node/storage.proto", "storage", goPkg, []string{"gorums.proto"},
					[]string{"Request", "Response"}, "Storage", []gn1Method{read})
				fd.EnumType = append(fd.EnumType, &descriptorpb.EnumDescriptorProto{
					Name:  proto.String("Node"),
					Value: []*descriptorpb.EnumValueDescriptorProto{{Name: proto.String("NODE_UNSPECIFIED"), Number: proto.Int32(0)}},
				})
				return []*descriptorpb.FileDescriptorProto{fd}
			},
		},
		{
			// the messages are kept in a second file of the same Go package
			name:     "message_Manager_in_sibling_file",
			generate: []string{"message_Manager_in_sibling_file/types.proto", "message_Manager_in_sibling_file/storage.proto"},
			files: func(goPkg string) []*descriptorpb.FileDescriptorProto {
				types := gn1File("message_Manager_in_sibling_file/types.proto", "storage", goPkg, nil,
					[]string{"Request", "Response", "Manager"}, "", nil)
				fd := gn1File("message_Manager_in_sibling_file/storage.proto", "storage", goPkg,
					[]string{"gorums.proto", "message_Manager_in_sibling_file/types.proto"},
					nil, "Storage", []gn1Method{read})
				return []*descriptorpb.FileDescriptorProto{types, fd}
			},
		},
		{
			// the server template declares `type <Service> interface`
			name:     "service_named_Node",
			generate: []string{"service_named_Node/storage.proto"},
			files: func(goPkg string) []*descriptorpb.FileDescriptorProto {
				fd := gn1File("service_named_Node/storage.proto", "storage", goPkg, []string{"gorums.proto"},
					[]string{"Request", "Response"}, "Node", []gn1Method{read})
				return []*descriptorpb.FileDescriptorProto{fd}
			},
		},
		{
			name:     "service_named_Configuration",
			generate: []string{"service_named_Configuration/storage.proto"},
			files: func(goPkg string) []*descriptorpb.FileDescriptorProto {
				fd := gn1File("service_named_Configuration/storage.proto", "storage", goPkg, []string{"gorums.proto"},
					[]string{"Request", "Response"}, "Configuration", []gn1Method{read})
				return []*descriptorpb.FileDescriptorProto{fd}
			},
		},
	}
	for _, test := range tests {
		test := test
		t.Run(test.name, func(t *testing.T) {
			files := test.files(imp + "/" + strings.ToLower(test.name))
			req := gn1Request(test.generate, files...)
			stdout, stderr, exit := gn1RunPlugin(ctx, t, bin, req)
			if exit != 0 {
				t.Logf("rejected with a diagnostic: %s", stderr)
				return
			}
			resp := gn1Response(t, stdout)
			if resp.Error != nil {
				t.Logf("rejected with a diagnostic: %s", resp.GetError())
				return
			}
			if out, err := gn1Compile(ctx, t, root, resp, gn1MessageCode(t, req)); err != nil {
				t.Errorf("the plugin exited with status 0 and no diagnostic, but its output does not compile:\n%s", out)
			}
		})
	}
}

// ---- harness: drive the plugin as protoc would ---------------------------

// gn1Budget bounds the whole test: a hang becomes a failure.
const gn1Budget = 55 * time.Second

// gn1Method describes one rpc of the service under test.
type gn1Method struct {
	name         string
	in, out      string // fully-qualified proto names, e.g. ".demo.Request"
	clientStream bool
	serverStream bool
	opts         map[protoreflect.ExtensionType]interface{}
}

func gn1MethodProto(m gn1Method) *descriptorpb.MethodDescriptorProto {
	md := &descriptorpb.MethodDescriptorProto{
		Name:       proto.String(m.name),
		InputType:  proto.String(m.in),
		OutputType: proto.String(m.out),
	}
	if m.clientStream {
		md.ClientStreaming = proto.Bool(true)
	}
	if m.serverStream {
		md.ServerStreaming = proto.Bool(true)
	}
	if len(m.opts) > 0 {
		o := &descriptorpb.MethodOptions{}
		for x, v := range m.opts {
			proto.SetExtension(o, x, v)
		}
		md.Options = o
	}
	return md
}

func gn1Msg(name string) *descriptorpb.DescriptorProto {
	return &descriptorpb.DescriptorProto{
		Name: proto.String(name),
		Field: []*descriptorpb.FieldDescriptorProto{{
			Name:     proto.String("value"),
			JsonName: proto.String("value"),
			Number:   proto.Int32(1),
			Label:    descriptorpb.FieldDescriptorProto_LABEL_OPTIONAL.Enum(),
			Type:     descriptorpb.FieldDescriptorProto_TYPE_STRING.Enum(),
		}},
	}
}

// gn1File builds a proto3 file with the given messages and (optionally) one service.
func gn1File(name, pkg, goPkg string, deps, msgs []string, svc string, methods []gn1Method) *descriptorpb.FileDescriptorProto {
	fd := &descriptorpb.FileDescriptorProto{
		Name:       proto.String(name),
		Package:    proto.String(pkg),
		Syntax:     proto.String("proto3"),
		Dependency: deps,
		Options:    &descriptorpb.FileOptions{GoPackage: proto.String(goPkg)},
	}
	for _, m := range msgs {
		fd.MessageType = append(fd.MessageType, gn1Msg(m))
	}
	if svc != "" {
		sd := &descriptorpb.ServiceDescriptorProto{Name: proto.String(svc)}
		for _, m := range methods {
			sd.Method = append(sd.Method, gn1MethodProto(m))
		}
		fd.Service = append(fd.Service, sd)
	}
	return fd
}

// gn1Request builds the request protoc would send: all files in dependency
// order, and the names of the files to generate code for.
func gn1Request(generate []string, files ...*descriptorpb.FileDescriptorProto) *pluginpb.CodeGeneratorRequest {
	req := &pluginpb.CodeGeneratorRequest{FileToGenerate: generate}
	req.ProtoFile = append(req.ProtoFile,
		protodesc.ToFileDescriptorProto(descriptorpb.File_google_protobuf_descriptor_proto),
		protodesc.ToFileDescriptorProto(gorums.File_gorums_proto),
		protodesc.ToFileDescriptorProto(emptypb.File_google_protobuf_empty_proto),
	)
	req.ProtoFile = append(req.ProtoFile, files...)
	return req
}

// gn1BuildPlugin builds cmd/protoc-gen-gorums from the tree under test.
func gn1BuildPlugin(ctx context.Context, t *testing.T) string {
	t.Helper()
	bin := filepath.Join(t.TempDir(), "protoc-gen-gorums")
	cmd := exec.CommandContext(ctx, "go", "build", "-o", bin, "github.com/relab/gorums/cmd/protoc-gen-gorums")
	if out, err := cmd.CombinedOutput(); err != nil {
		t.Fatalf("building the plugin: %v\n%s", err, out)
	}
	return bin
}

// gn1RunPlugin runs the plugin binary with the request on stdin, as protoc does.
// It returns the raw response bytes, what was written to stderr and the exit status.
func gn1RunPlugin(ctx context.Context, t *testing.T, bin string, req *pluginpb.CodeGeneratorRequest) (stdout []byte, stderr string, exit int) {
	t.Helper()
	in, err := proto.Marshal(req)
	if err != nil {
		t.Fatal(err)
	}
	cmd := exec.CommandContext(ctx, bin)
	cmd.Stdin = bytes.NewReader(in)
	var so, se bytes.Buffer
	cmd.Stdout, cmd.Stderr = &so, &se
	err = cmd.Run()
	if ctx.Err() != nil {
		t.Fatalf("the plugin did not terminate: %v", ctx.Err())
	}
	if err != nil {
		ee, ok := err.(*exec.ExitError)
		if !ok {
			t.Fatal(err)
		}
		return so.Bytes(), se.String(), ee.ExitCode()
	}
	return so.Bytes(), se.String(), 0
}

func gn1Response(t *testing.T, stdout []byte) *pluginpb.CodeGeneratorResponse {
	t.Helper()
	resp := &pluginpb.CodeGeneratorResponse{}
	if err := proto.Unmarshal(stdout, resp); err != nil {
		t.Fatalf("the plugin wrote a malformed response: %v", err)
	}
	return resp
}

// gn1MessageCode runs protoc-gen-go (as a library) on the same request; it
// yields the standard message code that the Gorums output has to compile with.
func gn1MessageCode(t *testing.T, req *pluginpb.CodeGeneratorRequest) *pluginpb.CodeGeneratorResponse {
	t.Helper()
	gen, err := protogen.Options{}.New(req)
	if err != nil {
		t.Fatal(err)
	}
	for _, f := range gen.Files {
		if f.Generate {
			gengo.GenerateFile(gen, f)
		}
	}
	return gen.Response()
}

const gn1Module = "github.com/relab/gorums"

// gn1Scratch creates a scratch directory below the module root (so that the
// generated packages resolve their imports through the module under test) and
// returns the module root and the import path of the scratch directory.
func gn1Scratch(t *testing.T) (root, importPath string) {
	t.Helper()
	wd, err := os.Getwd()
	if err != nil {
		t.Fatal(err)
	}
	root = filepath.Clean(filepath.Join(wd, "..", "..", ".."))
	if _, err := os.Stat(filepath.Join(root, "go.mod")); err != nil {
		t.Fatalf("module root not found: %v", err)
	}
	dir, err := os.MkdirTemp(wd, "zz_generated_")
	if err != nil {
		t.Fatal(err)
	}
	t.Cleanup(func() { os.RemoveAll(dir) })
	rel, err := filepath.Rel(root, dir)
	if err != nil {
		t.Fatal(err)
	}
	return root, gn1Module + "/" + filepath.ToSlash(rel)
}

// gn1Compile writes the files of the responses below the module root and
// builds the packages they belong to. It returns the compiler output.
func gn1Compile(ctx context.Context, t *testing.T, root string, resps ...*pluginpb.CodeGeneratorResponse) (string, error) {
	t.Helper()
	pkgs := map[string]bool{}
	for _, r := range resps {
		if r.Error != nil {
			t.Fatalf("generator error: %s", r.GetError())
		}
		for _, f := range r.File {
			name := f.GetName()
			if !strings.HasPrefix(name, gn1Module+"/") {
				t.Fatalf("unexpected output file name %s", name)
			}
			rel := strings.TrimPrefix(name, gn1Module+"/")
			dst := filepath.Join(root, filepath.FromSlash(rel))
			if err := os.MkdirAll(filepath.Dir(dst), 0o755); err != nil {
				t.Fatal(err)
			}
			if err := os.WriteFile(dst, []byte(f.GetContent()), 0o644); err != nil {
				t.Fatal(err)
			}
			pkgs["./"+filepath.ToSlash(filepath.Dir(rel))] = true
		}
	}
	args := []string{"build"}
	for p := range pkgs {
		args = append(args, p)
	}
	cmd := exec.CommandContext(ctx, "go", args...)
	cmd.Dir = root
	out, err := cmd.CombinedOutput()
	if ctx.Err() != nil {
		t.Fatalf("go build did not finish: %v", ctx.Err())
	}
	return string(out), err
}
