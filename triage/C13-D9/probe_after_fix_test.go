package gorums_test

import (
	"context"
	"errors"
	"testing"
	"time"
	"unicode/utf8"

	"github.com/relab/gorums"
	"github.com/relab/gorums/tests/dummy"
	"google.golang.org/grpc"
	"google.golang.org/grpc/codes"
	"google.golang.org/grpc/credentials/insecure"
	"google.golang.org/grpc/status"
)

type rawTextSrv struct{ err error }

func (s rawTextSrv) Test(_ gorums.ServerCtx, _ *dummy.Empty) (*dummy.Empty, error) {
	return nil, s.err
}

func TestProbeInvalidUTF8Status(t *testing.T) {
	cases := []error{
		status.Error(codes.InvalidArgument, "bad key \xff\xfe"),
		errors.New("cannot parse record \"\xc3\x28\""),
		status.Error(codes.NotFound, "plain text 100% ok ü"),
	}
	for _, herr := range cases {
		want := status.Convert(herr)
		addrs, teardown := gorums.TestSetup(t, 1, func(_ int) gorums.ServerIface {
			srv := gorums.NewServer()
			dummy.RegisterDummyServer(srv, rawTextSrv{herr})
			return srv
		})
		mgr := dummy.NewManager(gorums.WithDialTimeout(10*time.Second), gorums.WithGrpcDialOptions(grpc.WithBlock(), grpc.WithTransportCredentials(insecure.NewCredentials())))
		if _, err := mgr.NewConfiguration(gorums.WithNodeList(addrs)); err != nil {
			t.Fatal(err)
		}
		for i := 0; i < 2; i++ { // the second call shows that the stream survived
			ctx, cancel := context.WithTimeout(context.Background(), 20*time.Second)
			_, err := mgr.Nodes()[0].Test(ctx, &dummy.Empty{})
			cancel()
			got, _ := status.FromError(err)
			if err == nil || got.Code() != want.Code() {
				t.Errorf("call %d: handler returned (%v, %q), caller got: %v", i, want.Code(), want.Message(), err)
			}
			if utf8.ValidString(want.Message()) && got.Message() != want.Message() {
				t.Errorf("call %d: valid text changed: %q -> %q", i, want.Message(), got.Message())
			}
			t.Logf("%v %q -> %v %q", want.Code(), want.Message(), got.Code(), got.Message())
		}
		mgr.Close()
		teardown()
	}
}
