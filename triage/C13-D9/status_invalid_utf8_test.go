package gorums_test

import (
	"context"
	"errors"
	"testing"
	"time"

	"github.com/relab/gorums"
	"github.com/relab/gorums/tests/dummy"
	"google.golang.org/grpc"
	"google.golang.org/grpc/codes"
	"google.golang.org/grpc/credentials/insecure"
	"google.golang.org/grpc/status"
)

type rawTextSrv struct{ err error }

func (s rawTextSrv) Test(_ gorums.ServerCtx, _ *dummy.Empty) (*dummy.Empty, error) {
	return nil, s.err
}

// TestHandlerStatusWithRawBytesReachesCaller: the text of a Go error is an arbitrary
// byte string (errors that quote a key, a file name or a piece of the input often are
// not valid UTF-8). gRPC itself carries such status text (it percent-encodes the
// grpc-message header); the status of a gorums handler must reach the caller as well.
func TestHandlerStatusWithRawBytesReachesCaller(t *testing.T) {
	cases := []error{
		status.Error(codes.InvalidArgument, "bad key \xff\xfe"),
		errors.New("cannot parse record \"\xc3\x28\""), // a plain error: code Unknown, same text
	}
	for _, herr := range cases {
		want := status.Convert(herr)

		addrs, teardown := gorums.TestSetup(t, 1, func(_ int) gorums.ServerIface {
			srv := gorums.NewServer()
			dummy.RegisterDummyServer(srv, rawTextSrv{herr})
			return srv
		})
		mgr := dummy.NewManager(
			gorums.WithDialTimeout(10*time.Second),
			gorums.WithGrpcDialOptions(
				grpc.WithBlock(),
				grpc.WithTransportCredentials(insecure.NewCredentials()),
			),
		)
		if _, err := mgr.NewConfiguration(gorums.WithNodeList(addrs)); err != nil {
			t.Fatal(err)
		}
		ctx, cancel := context.WithTimeout(context.Background(), 20*time.Second)
		_, err := mgr.Nodes()[0].Test(ctx, &dummy.Empty{})
		cancel()
		mgr.Close()
		teardown()

		got, _ := status.FromError(err)
		if err == nil || got.Code() != want.Code() || got.Message() != want.Message() {
			t.Errorf("handler returned (%v, %q), caller got: %v", want.Code(), want.Message(), err)
		}
	}
}
