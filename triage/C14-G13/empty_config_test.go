package config

import (
	"context"
	"testing"
	"time"

	gorums "github.com/relab/gorums"
)

// The node list is documented as required ("based on the provided list of
// nodes (required)"), and every other way of asking for a configuration
// without nodes is rejected with an error. The generated NewConfiguration
// does not notice that no NodeListOption was given.
func TestNewConfigurationWithoutNodeList(t *testing.T) {
	mgr := NewManager(gorums.WithNoConnect())
	defer mgr.Close()

	cfg, err := mgr.NewConfiguration(newQSpec(1))
	if err == nil {
		t.Errorf("NewConfiguration(qspec) = configuration with Size() = %d, NodeIDs() = %v and a nil error; expected an error",
			cfg.Size(), cfg.NodeIDs())
	}
	cfg, err = mgr.NewConfiguration(newQSpec(1), newQSpec(1))
	if err == nil {
		t.Errorf("NewConfiguration(qspec, qspec) = configuration with Size() = %d and a nil error; expected an error", cfg.Size())
	}
	cfg, err = ConfigurationFromRaw(nil, newQSpec(1))
	if err == nil {
		t.Errorf("ConfigurationFromRaw(nil, qspec) = configuration with Size() = %d and a nil error; expected an error", cfg.Size())
	}
}

// What the empty configuration does when it is used.
func TestQuorumCallOnConfigurationWithoutNodeList(t *testing.T) {
	mgr := NewManager(gorums.WithNoConnect())
	defer mgr.Close()
	cfg, err := mgr.NewConfiguration(newQSpec(1))
	if err != nil {
		return // rejected, as it should be
	}
	defer func() {
		if r := recover(); r != nil {
			t.Errorf("quorum call on the configuration that NewConfiguration(qspec) returned: panic: %v", r)
		}
	}()
	ctx, cancel := context.WithTimeout(context.Background(), 2*time.Second)
	defer cancel()
	_, err = cfg.Config(ctx, &Request{Num: 1})
	t.Logf("cfg.Config on a configuration of size %d: %v", cfg.Size(), err)
}
