package correctable

import (
	"context"
	"sync"
	"sync/atomic"
	"testing"
	"time"

	"github.com/relab/gorums"
	"google.golang.org/grpc"
	"google.golang.org/grpc/credentials/insecure"
)

const scReplies = 50

// scSrv streams a fixed number of replies and reports when it has sent them all.
type scSrv struct {
	sent chan struct{}
}

func (s scSrv) CorrectableStream(_ gorums.ServerCtx, _ *CorrectableRequest, send func(*CorrectableResponse) error) error {
	for i := 1; i <= scReplies; i++ {
		if err := send(&CorrectableResponse{Level: int32(i)}); err != nil {
			return err
		}
	}
	close(s.sent)
	return nil
}

func (scSrv) Correctable(_ gorums.ServerCtx, _ *CorrectableRequest) (*CorrectableResponse, error) {
	return &CorrectableResponse{Level: 1}, nil
}

// scSpec has a quorum function for the stream call that takes its time on the first reply.
type scSpec struct {
	calls *int32
	gate  <-chan struct{}
}

func (q scSpec) CorrectableStreamQF(_ *CorrectableRequest, replies map[uint32]*CorrectableResponse) (*CorrectableResponse, int, bool) {
	if atomic.AddInt32(q.calls, 1) == 1 {
		<-q.gate
	}
	var lvl int
	for _, r := range replies {
		lvl = int(r.Level)
	}
	return &CorrectableResponse{Level: int32(lvl)}, lvl, false
}

func (scSpec) CorrectableQF(_ *CorrectableRequest, replies map[uint32]*CorrectableResponse) (*CorrectableResponse, int, bool) {
	for _, r := range replies {
		return r, 1, true
	}
	return nil, gorums.LevelNotSet, false
}

// A patient server-stream correctable call is in flight on a node; its quorum
// function is slow, so the node is ahead of the call. Another call with a short
// deadline on the same node must return, and complete, soon after that deadline.
func TestCallWithDeadlineBesideSlowStreamCall(t *testing.T) {
	sent := make(chan struct{})
	addrs, teardown := gorums.TestSetup(t, 1, func(_ int) gorums.ServerIface {
		srv := gorums.NewServer()
		RegisterCorrectableTestServer(srv, scSrv{sent: sent})
		return srv
	})
	defer teardown()

	mgr := NewManager(
		gorums.WithDialTimeout(2*time.Second),
		gorums.WithGrpcDialOptions(
			grpc.WithBlock(),
			grpc.WithTransportCredentials(insecure.NewCredentials()),
		),
	)
	defer mgr.Close()

	gate := make(chan struct{})
	var once sync.Once
	openGate := func() { once.Do(func() { close(gate) }) }
	defer openGate()

	cfg, err := mgr.NewConfiguration(scSpec{calls: new(int32), gate: gate}, gorums.WithNodeList(addrs))
	if err != nil {
		t.Fatal(err)
	}

	streamCtx, streamCancel := context.WithTimeout(context.Background(), 30*time.Second)
	defer streamCancel()
	cfg.CorrectableStream(streamCtx, &CorrectableRequest{})

	// let the node send everything it has, and give the replies time to arrive
	select {
	case <-sent:
	case <-time.After(10 * time.Second):
		t.Fatal("setup: the server has not sent its replies")
	}
	time.Sleep(300 * time.Millisecond)

	const timeout = 500 * time.Millisecond
	const margin = 5 * time.Second
	ctx, cancel := context.WithTimeout(context.Background(), timeout)
	defer cancel()

	returned := make(chan *CorrectableCorrectableResponse, 1)
	go func() { returned <- cfg.Correctable(ctx, &CorrectableRequest{}) }()

	var corr *CorrectableCorrectableResponse
	select {
	case corr = <-returned:
	case <-time.After(timeout + margin):
		t.Fatalf("Correctable has not returned %v after its deadline", margin)
	}
	select {
	case <-corr.Done():
	case <-time.After(timeout + margin):
		t.Fatalf("the correctable has not completed %v after its deadline", margin)
	}
}
