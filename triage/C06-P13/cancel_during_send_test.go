package oneway_test

import (
	"context"
	"sync"
	"testing"
	"time"

	"github.com/relab/gorums"
	"github.com/relab/gorums/tests/oneway"
	"google.golang.org/grpc"
	"google.golang.org/grpc/credentials/insecure"
)

// g1SlowStream makes the SendMsg of the request with Num == g1SlowNum take a
// while (as a large message or a used-up flow control window would), and tells
// the test when that SendMsg has begun.
type g1SlowStream struct {
	grpc.ClientStream
	sending chan struct{}
}

const (
	g1SlowNum = 99
	g1LastNum = 10
)

func (s *g1SlowStream) SendMsg(m interface{}) error {
	if gm, ok := m.(*gorums.Message); ok {
		if r, ok := gm.Message.(*oneway.Request); ok && r.GetNum() == g1SlowNum {
			s.sending <- struct{}{}
			time.Sleep(time.Second)
		}
	}
	return s.ClientStream.SendMsg(m)
}

type g1Srv struct {
	entered  chan uint64
	gate     chan struct{}
	received chan uint64
}

func (s *g1Srv) Unicast(_ gorums.ServerCtx, r *oneway.Request) {
	s.entered <- r.GetNum()
	select {
	case <-s.gate:
	case <-time.After(40 * time.Second):
	}
	s.received <- r.GetNum()
}
func (s *g1Srv) Multicast(_ gorums.ServerCtx, r *oneway.Request)        {}
func (s *g1Srv) MulticastPerNode(_ gorums.ServerCtx, r *oneway.Request) {}

// TestCancelDuringSendLosesOtherCalls: Unicast(1..10) are made with a context
// that is never cancelled, to a node that is reachable all the time, and have
// all returned (send-waiting: they have been sent). The handler of the first one
// is slow, so the others wait in the server. Then the context of one more call,
// Unicast(99), ends while its message is being sent. The property promises
// exactly-once delivery for Unicast(1..10).
func TestCancelDuringSendLosesOtherCalls(t *testing.T) {
	srv := &g1Srv{
		entered:  make(chan uint64, 32),
		gate:     make(chan struct{}),
		received: make(chan uint64, 32),
	}
	var gateOnce sync.Once
	openGate := func() { gateOnce.Do(func() { close(srv.gate) }) }
	defer openGate()

	addrs, closeServers := gorums.TestSetup(t, 1, func(_ int) gorums.ServerIface {
		s := gorums.NewServer()
		oneway.RegisterOnewayTestServer(s, srv)
		return s
	})
	defer closeServers()

	sending := make(chan struct{}, 4)
	mgr := oneway.NewManager(
		gorums.WithDialTimeout(5*time.Second),
		gorums.WithGrpcDialOptions(
			grpc.WithBlock(),
			grpc.WithTransportCredentials(insecure.NewCredentials()),
			grpc.WithStreamInterceptor(func(ctx context.Context, desc *grpc.StreamDesc, cc *grpc.ClientConn, method string, streamer grpc.Streamer, opts ...grpc.CallOption) (grpc.ClientStream, error) {
				cs, err := streamer(ctx, desc, cc, method, opts...)
				if err != nil {
					return nil, err
				}
				return &g1SlowStream{ClientStream: cs, sending: sending}, nil
			}),
		),
	)
	defer mgr.Close()
	cfg, err := mgr.NewConfiguration(gorums.WithNodeList(addrs))
	if err != nil {
		t.Fatal(err)
	}
	node := cfg.Nodes()[0]
	bg := context.Background()

	call := func(name string, fn func()) {
		t.Helper()
		done := make(chan struct{})
		go func() {
			defer close(done)
			fn()
		}()
		select {
		case <-done:
		case <-time.After(10 * time.Second):
			t.Fatalf("%s did not return", name)
		}
	}

	call("Unicast(1)", func() { node.Unicast(bg, &oneway.Request{Num: 1}) })
	select {
	case <-srv.entered:
	case <-time.After(10 * time.Second):
		t.Fatal("Unicast(1) did not arrive")
	}
	for num := uint64(2); num <= g1LastNum; num++ {
		call("Unicast", func() { node.Unicast(bg, &oneway.Request{Num: num}) })
	}

	ctx99, cancel99 := context.WithCancel(bg)
	defer cancel99()
	u99 := make(chan struct{})
	go func() {
		defer close(u99)
		node.Unicast(ctx99, &oneway.Request{Num: g1SlowNum})
	}()
	select {
	case <-sending:
	case <-time.After(10 * time.Second):
		t.Fatal("the sender did not get to Unicast(99)")
	}
	cancel99() // while the message is being sent
	select {
	case <-u99:
	case <-time.After(10 * time.Second):
		t.Fatal("Unicast(99) did not return")
	}
	time.Sleep(1500 * time.Millisecond)
	openGate()

	got := make(map[uint64]int)
	deadline := time.After(8 * time.Second)
collect:
	for {
		select {
		case num := <-srv.received:
			got[num]++
			all := true
			for n := uint64(1); n <= g1LastNum; n++ {
				all = all && got[n] > 0
			}
			if all {
				break collect
			}
		case <-deadline:
			break collect
		}
	}
	for num := uint64(1); num <= g1LastNum; num++ {
		if got[num] != 1 {
			t.Errorf("Unicast(%d) was delivered %d times, want exactly once (node reachable, context never cancelled)", num, got[num])
		}
	}
}
