package gorums_test

import (
	"fmt"
	"testing"

	"github.com/relab/gorums"
)

// TestNodeSortNodesWithoutChannel sorts nodes that have no channel: nodes of a
// manager created with WithNoConnect, and nodes that were created with the
// public constructor but not (yet) added to a manager. Such nodes have no last
// error, so under LastNodeError they all tie and the next key decides.
func TestNodeSortNodesWithoutChannel(t *testing.T) {
	mgr := gorums.NewRawManager(gorums.WithNoConnect())
	defer mgr.Close()
	for i, addr := range []string{"127.0.0.1:9083", "127.0.0.1:9081", "127.0.0.1:9082"} {
		node, err := gorums.NewRawNodeWithID(addr, uint32(10-i))
		if err != nil {
			t.Fatal(err)
		}
		if err = mgr.AddNode(node); err != nil {
			t.Fatal(err)
		}
	}
	fresh, err := gorums.NewRawNode("127.0.0.1:9080")
	if err != nil {
		t.Fatal(err)
	}

	sortNodes := func(name string, sorter *gorums.MultiSorter, nodes []*gorums.RawNode) (ok bool) {
		defer func() {
			if r := recover(); r != nil {
				t.Errorf("%s: panic: %v", name, r)
				ok = false
			}
		}()
		sorter.Sort(nodes)
		return true
	}

	nodes := mgr.Nodes()
	if sortNodes("OrderedBy(Port) on WithNoConnect nodes", gorums.OrderedBy(gorums.Port), nodes) {
		for i := 1; i < len(nodes); i++ {
			if nodes[i-1].Port() > nodes[i].Port() {
				t.Errorf("not sorted by port: %v", nodes)
			}
		}
	}
	nodes = mgr.Nodes()
	if sortNodes("OrderedBy(LastNodeError, ID) on WithNoConnect nodes", gorums.OrderedBy(gorums.LastNodeError, gorums.ID), nodes) {
		for i := 1; i < len(nodes); i++ {
			if nodes[i-1].ID() > nodes[i].ID() {
				t.Errorf("not sorted by ID: %v", nodes)
			}
		}
	}
	nodes = append(mgr.Nodes(), fresh)
	sortNodes("OrderedBy(ID, LastNodeError) with a node that is not in a manager", gorums.OrderedBy(gorums.ID, gorums.LastNodeError), nodes)
	nodes = append(mgr.Nodes(), fresh)
	sortNodes("OrderedBy(LastNodeError) with a node that is not in a manager", gorums.OrderedBy(gorums.LastNodeError), nodes)

	func() {
		defer func() {
			if r := recover(); r != nil {
				t.Errorf("LastErr() on a WithNoConnect node: panic: %v", r)
			}
		}()
		_ = fmt.Sprint(mgr.Nodes()[0].LastErr())
	}()
}
