package gorums

import (
	"context"
	"runtime"
	"strings"
	"testing"
	"time"

	"github.com/relab/gorums/tests/mock"
	"google.golang.org/grpc"
	"google.golang.org/grpc/credentials/insecure"
	"google.golang.org/grpc/encoding"
	"google.golang.org/protobuf/proto"
	"google.golang.org/protobuf/reflect/protodesc"
	"google.golang.org/protobuf/reflect/protoreflect"
	"google.golang.org/protobuf/reflect/protoregistry"
	"google.golang.org/protobuf/types/descriptorpb"
)

const closedBufferedCall = "closedbuffered.Svc.Call"

func init() {
	encoding.RegisterCodec(NewCodec())
	fdp := &descriptorpb.FileDescriptorProto{
		Name:       proto.String("closedbuffered_test.proto"),
		Package:    proto.String("closedbuffered"),
		Syntax:     proto.String("proto3"),
		Dependency: []string{mock.File_mock_proto.Path()},
		Service: []*descriptorpb.ServiceDescriptorProto{{
			Name: proto.String("Svc"),
			Method: []*descriptorpb.MethodDescriptorProto{{
				Name:       proto.String("Call"),
				InputType:  proto.String(".mock.Request"),
				OutputType: proto.String(".mock.Response"),
			}},
		}},
	}
	fd, err := protodesc.NewFile(fdp, protoregistry.GlobalFiles)
	if err != nil {
		panic(err)
	}
	if err = protoregistry.GlobalFiles.RegisterFile(fd); err != nil {
		panic(err)
	}
}

// A manager that was created with a send buffer (WithSendBufferSize) is closed.
// Calls that are made from then on (in a real program: calls that race with
// Close) must end with an error, like they do without a send buffer, and must
// not leave a goroutine or a routing entry behind.
func TestCallsOnClosedManagerWithSendBuffer(t *testing.T) {
	addrs, teardown := TestSetup(t, 1, func(_ int) ServerIface {
		srv := NewServer()
		srv.RegisterHandler(closedBufferedCall, func(ctx ServerCtx, in *Message, finished chan<- *Message) {
			defer ctx.Release()
			SendMessage(ctx, finished, WrapMessage(in.Metadata, &mock.Response{Val: "ok"}, nil))
		})
		return srv
	})
	defer teardown()

	mgr := NewRawManager(
		WithDialTimeout(10*time.Second),
		WithSendBufferSize(64),
		WithGrpcDialOptions(
			grpc.WithBlock(),
			grpc.WithTransportCredentials(insecure.NewCredentials()),
		),
	)
	cfg, err := NewRawConfiguration(mgr, WithNodeList(addrs))
	if err != nil {
		t.Fatal(err)
	}
	qf := func(_ protoreflect.ProtoMessage, replies map[uint32]protoreflect.ProtoMessage) (protoreflect.ProtoMessage, bool) {
		return &mock.Response{}, len(replies) == 1
	}
	// the node works
	ctx, cancel := context.WithTimeout(context.Background(), 20*time.Second)
	defer cancel()
	if _, err = cfg.QuorumCall(ctx, QuorumCallData{Message: &mock.Request{}, Method: closedBufferedCall, QuorumFunction: qf}); err != nil {
		t.Fatal(err)
	}

	mgr.Close()
	// let the goroutines of the node's channel end
	time.Sleep(500 * time.Millisecond)

	const calls = 16
	var futures []*Async
	for i := 0; i < calls; i++ {
		futures = append(futures, cfg.AsyncCall(context.Background(), QuorumCallData{Message: &mock.Request{}, Method: closedBufferedCall, QuorumFunction: qf}))
	}
	time.Sleep(2 * time.Second)
	pending := 0
	for _, f := range futures {
		if !f.Done() {
			pending++
		}
	}
	if pending != 0 {
		t.Errorf("%d of %d calls on the closed node are still waiting", pending, calls)
	}
	cfg[0].channel.responseMut.Lock()
	routers := len(cfg[0].channel.responseRouters)
	cfg[0].channel.responseMut.Unlock()
	if routers != 0 {
		t.Errorf("routing entries left on the closed node: %d", routers)
	}
	buf := make([]byte, 1<<22)
	buf = buf[:runtime.Stack(buf, true)]
	if n := strings.Count(string(buf), "RawConfiguration.handleAsyncCall("); n != 0 {
		t.Errorf("goroutines of calls on the closed node: %d", n)
	}
}
