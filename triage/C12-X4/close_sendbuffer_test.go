package gorums_test

import (
	"context"
	"testing"
	"time"

	"github.com/relab/gorums"
	"github.com/relab/gorums/tests/dummy"
	"google.golang.org/grpc"
	"google.golang.org/grpc/credentials/insecure"
)

// TestCloseThenCallWithSendBuffer issues calls after Manager.Close has returned,
// on a manager created with a non-zero send buffer. Every call must fail fast.
func TestCloseThenCallWithSendBuffer(t *testing.T) {
	addrs, teardown := gorums.TestSetup(t, 1, func(_ int) gorums.ServerIface {
		srv := gorums.NewServer()
		dummy.RegisterDummyServer(srv, &testSrv{})
		return srv
	})
	defer teardown()

	mgr := gorums.NewRawManager(
		gorums.WithSendBufferSize(8),
		gorums.WithDialTimeout(5*time.Second),
		gorums.WithGrpcDialOptions(
			grpc.WithBlock(),
			grpc.WithTransportCredentials(insecure.NewCredentials()),
		),
	)
	node, err := gorums.NewRawNode(addrs[0])
	if err != nil {
		t.Fatal(err)
	}
	if err = mgr.AddNode(node); err != nil {
		t.Fatal(err)
	}
	// the node works
	ctx, cancel := context.WithTimeout(context.Background(), 10*time.Second)
	_, err = node.RPCCall(ctx, gorums.CallData{Message: &dummy.Empty{}, Method: "dummy.Dummy.Test"})
	cancel()
	if err != nil {
		t.Fatalf("call before Close: %v", err)
	}

	mgr.Close()

	const calls = 16
	type result struct {
		i   int
		err error
	}
	results := make(chan result, calls)
	for i := 0; i < calls; i++ {
		go func(i int) {
			_, err := node.RPCCall(context.Background(), gorums.CallData{Message: &dummy.Empty{}, Method: "dummy.Dummy.Test"})
			results <- result{i, err}
		}(i)
	}
	deadline := time.After(15 * time.Second)
	for got := 0; got < calls; got++ {
		select {
		case r := <-results:
			if r.err == nil {
				t.Errorf("call %d after Close succeeded", r.i)
			}
		case <-deadline:
			t.Fatalf("only %d of %d calls issued after Close returned within 15s; the others block forever", got, calls)
		}
	}
}
