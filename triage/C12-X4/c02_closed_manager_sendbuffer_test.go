package gorums_test

import (
	"context"
	"errors"
	"testing"
	"time"

	"github.com/relab/gorums"
	"github.com/relab/gorums/tests/config"
	"google.golang.org/grpc"
	"google.golang.org/grpc/credentials/insecure"
	"google.golang.org/protobuf/reflect/protoreflect"
)

// TestC02ClosedManagerWithSendBuffer makes quorum calls after the manager has
// been closed, on a manager created with WithSendBufferSize. Every node is
// closed, so every node must be accounted for as an error and the call must
// end with Incomplete (errors: 3, replies: 0) at once. It must not sit
// until the context ends.
func TestC02ClosedManagerWithSendBuffer(t *testing.T) {
	const numNodes = 3
	addrs, teardown := gorums.TestSetup(t, numNodes, func(_ int) gorums.ServerIface {
		srv := gorums.NewServer()
		srv.RegisterHandler("config.ConfigTest.Config", func(ctx gorums.ServerCtx, in *gorums.Message, finished chan<- *gorums.Message) {
			req := in.Message.(*config.Request)
			ctx.Release()
			_ = gorums.SendMessage(ctx, finished, gorums.WrapMessage(in.Metadata, &config.Response{Num: req.GetNum()}, nil))
		})
		return srv
	})
	defer teardown()

	mgr := gorums.NewRawManager(
		gorums.WithSendBufferSize(8),
		gorums.WithDialTimeout(5*time.Second),
		gorums.WithGrpcDialOptions(grpc.WithBlock(), grpc.WithTransportCredentials(insecure.NewCredentials())),
	)
	idMap := make(map[string]uint32)
	for i, a := range addrs {
		idMap[a] = uint32(i + 1)
	}
	cfg, err := gorums.NewRawConfiguration(mgr, gorums.WithNodeMap(idMap))
	if err != nil {
		t.Fatal(err)
	}
	qf := func(_ protoreflect.ProtoMessage, replies map[uint32]protoreflect.ProtoMessage) (protoreflect.ProtoMessage, bool) {
		if len(replies) < 2 {
			return nil, false
		}
		for _, r := range replies {
			return r, true
		}
		return nil, true
	}
	call := func(ctx context.Context, num uint64) error {
		_, err := cfg.QuorumCall(ctx, gorums.QuorumCallData{
			Message:        &config.Request{Num: num},
			Method:         "config.ConfigTest.Config",
			QuorumFunction: qf,
		})
		return err
	}

	// the configuration works
	ctx, cancel := context.WithTimeout(context.Background(), 10*time.Second)
	if err := call(ctx, 1); err != nil {
		cancel()
		t.Fatalf("call on the open manager: %v", err)
	}
	cancel()

	mgr.Close()
	time.Sleep(200 * time.Millisecond) // let the channels' goroutines stop

	const rounds = 4
	var waited int
	for i := 0; i < rounds; i++ {
		ctx, cancel := context.WithTimeout(context.Background(), 2*time.Second)
		start := time.Now()
		err := call(ctx, uint64(10+i))
		cancel()
		switch {
		case errors.Is(err, gorums.Incomplete):
			// every closed node reported as an error
		case errors.Is(err, context.DeadlineExceeded):
			waited++
			t.Logf("call %d on the closed manager waited %v for the context to end: %v", i, time.Since(start).Round(time.Millisecond), err)
		default:
			t.Errorf("call %d on the closed manager: unexpected outcome %v", i, err)
		}
	}
	if waited > 0 {
		t.Errorf("%d of %d calls on a closed manager kept waiting although every targeted node is closed (want Incomplete, errors: %d)", waited, rounds, numNodes)
	}
}
