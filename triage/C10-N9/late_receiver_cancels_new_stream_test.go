package gorums_test

import (
	"context"
	"net"
	"sync"
	"testing"
	"time"

	"github.com/relab/gorums"
	"github.com/relab/gorums/tests/dummy"
	"google.golang.org/grpc"
	"google.golang.org/grpc/credentials/insecure"
)

// slowReturnStream delays the return of a failed RecvMsg on the streams it is
// armed for. For the channel's receiver goroutine this is the same as being
// descheduled between the return of RecvMsg and its next statement.
type slowReturnStream struct {
	grpc.ClientStream
	failed  chan struct{} // closed when RecvMsg has failed
	release chan struct{} // the failed RecvMsg returns when this is closed
	once    sync.Once
}

func (s *slowReturnStream) RecvMsg(m interface{}) error {
	err := s.ClientStream.RecvMsg(m)
	if err != nil {
		s.once.Do(func() { close(s.failed) })
		<-s.release
	}
	return err
}

type notifySrv struct{ handled chan struct{} }

func (s *notifySrv) Test(_ gorums.ServerCtx, _ *dummy.Empty) (*dummy.Empty, error) {
	select {
	case s.handled <- struct{}{}:
	default:
	}
	return &dummy.Empty{}, nil
}

func serveNotify(t *testing.T, addr string, impl *notifySrv) (stop func(), actual string) {
	t.Helper()
	var lis net.Listener
	var err error
	for i := 0; i < 50; i++ {
		lis, err = net.Listen("tcp", addr)
		if err == nil {
			break
		}
		time.Sleep(100 * time.Millisecond)
	}
	if err != nil {
		t.Fatalf("could not listen on %s: %v", addr, err)
	}
	srv := gorums.NewServer()
	dummy.RegisterDummyServer(srv, impl)
	go func() { _ = srv.Serve(lis) }()
	return srv.Stop, lis.Addr().String()
}

// Schedule: the node crashes; the receiver goroutine is slow to react to the
// failed RecvMsg. Meanwhile the sender notices the dead stream (a first call
// fails), the node restarts, and the sender re-creates the stream for a second
// call, which the restarted server handles and answers. Only now the receiver
// goes on. The second call must get its reply.
func TestSlowReceiverMustNotCancelCallsOnTheNewStream(t *testing.T) {
	impl := &notifySrv{handled: make(chan struct{}, 16)}
	stop, addr := serveNotify(t, "127.0.0.1:0", impl)

	first := &slowReturnStream{failed: make(chan struct{}), release: make(chan struct{})}
	var released sync.Once
	releaseReceiver := func() { released.Do(func() { close(first.release) }) }
	defer releaseReceiver()

	var mu sync.Mutex
	streams := 0
	interceptor := func(ctx context.Context, desc *grpc.StreamDesc, cc *grpc.ClientConn, method string, streamer grpc.Streamer, opts ...grpc.CallOption) (grpc.ClientStream, error) {
		cs, err := streamer(ctx, desc, cc, method, opts...)
		if err != nil {
			return nil, err
		}
		mu.Lock()
		streams++
		n := streams
		mu.Unlock()
		if n == 1 {
			first.ClientStream = cs
			return first, nil
		}
		return cs, nil
	}

	mgr := gorums.NewRawManager(
		gorums.WithGrpcDialOptions(
			grpc.WithTransportCredentials(insecure.NewCredentials()),
			grpc.WithStreamInterceptor(interceptor),
		),
	)
	defer mgr.Close()
	cfg, err := gorums.NewRawConfiguration(mgr, gorums.WithNodeList([]string{addr}))
	if err != nil {
		t.Fatal(err)
	}
	node := cfg.Nodes()[0]

	call := func(timeout time.Duration) error {
		ctx, cancel := context.WithTimeout(context.Background(), timeout)
		defer cancel()
		_, err := node.RPCCall(ctx, gorums.CallData{Message: &dummy.Empty{}, Method: "dummy.Dummy.Test"})
		return err
	}

	if err := call(5 * time.Second); err != nil {
		t.Fatalf("call before the crash: %v", err)
	}
	<-impl.handled

	// crash; the receiver's RecvMsg fails, but the receiver does not get to react yet
	stop()
	select {
	case <-first.failed:
	case <-time.After(10 * time.Second):
		t.Fatal("RecvMsg on the first stream did not fail after the server was stopped")
	}

	// the sender notices the dead stream: this call fails
	if err := call(5 * time.Second); err == nil {
		t.Fatal("call while the node is down: got <nil>, want error")
	}

	// the node comes back
	stop, _ = serveNotify(t, addr, impl)
	defer stop()

	// calls until one reaches the restarted server; that one is sent on a
	// stream that the sender has re-created
	var result chan error
	deadline := time.Now().Add(30 * time.Second)
reach:
	for {
		if time.Now().After(deadline) {
			t.Fatal("no call reached the restarted server")
		}
		result = make(chan error, 1)
		go func(c chan error) { c <- call(10 * time.Second) }(result)
		select {
		case <-impl.handled:
			break reach
		case err := <-result:
			if err == nil {
				t.Fatal("a call was answered although the receiver is held back; the schedule is not the intended one")
			}
			time.Sleep(50 * time.Millisecond)
		}
	}
	// the handler has returned its reply; give it the time to be sent
	time.Sleep(300 * time.Millisecond)

	// now the receiver reacts to the failure of the first stream
	releaseReceiver()

	select {
	case err := <-result:
		if err != nil {
			t.Errorf("the restarted server handled the request and replied, but the call got: %v", err)
		}
	case <-time.After(15 * time.Second):
		t.Error("the restarted server handled the request and replied, but the call did not return")
	}

	// the node must be usable afterwards in any case
	if err := call(5 * time.Second); err != nil {
		t.Errorf("follow-up call: %v", err)
	}
}
