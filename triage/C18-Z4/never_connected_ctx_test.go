package gorums

import (
	"context"
	"net"
	"reflect"
	"testing"
	"time"

	"github.com/relab/gorums/tests/mock"
	"google.golang.org/grpc"
	"google.golang.org/grpc/credentials/insecure"
)

// cancelChildren returns the number of contexts that are registered with the
// cancel context underneath ctx (the children that the context package keeps
// in order to propagate cancellation), or -1 if there is no such context.
func cancelChildren(ctx context.Context) int {
	for {
		v := reflect.ValueOf(ctx)
		if v.Kind() != reflect.Ptr {
			return -1
		}
		e := v.Elem()
		if e.Type().Name() == "cancelCtx" {
			// reading the length of the unexported map is a plain read; the node's
			// sender is idle while this runs (all calls have returned).
			return e.FieldByName("children").Len()
		}
		f := e.FieldByName("Context")
		if !f.IsValid() {
			return -1
		}
		// valueCtx embeds the parent as an exported interface field
		next, ok := f.Interface().(context.Context)
		if !ok {
			return -1
		}
		ctx = next
	}
}

// Calls on a node that has never been reachable are answered with an error,
// one by one. Every one of them leaves a cancel context registered with the
// node's context.
func TestNeverConnectedNodeKeepsNoContextPerCall(t *testing.T) {
	// an address on which nobody listens
	lis, err := net.Listen("tcp", "127.0.0.1:0")
	if err != nil {
		t.Fatal(err)
	}
	addr := lis.Addr().String()
	lis.Close()

	mgr := NewRawManager(
		WithDialTimeout(time.Second),
		WithGrpcDialOptions(grpc.WithTransportCredentials(insecure.NewCredentials())),
	)
	defer mgr.Close()
	node, err := NewRawNode(addr)
	if err != nil {
		t.Fatal(err)
	}
	if err = mgr.AddNode(node); err != nil {
		t.Fatal(err)
	}
	before := cancelChildren(node.channel.parentCtx)
	if before < 0 {
		t.Skip("cannot look into the node's context with this Go version")
	}

	const calls = 20
	for i := 0; i < calls; i++ {
		ctx, cancel := context.WithTimeout(context.Background(), 10*time.Second)
		_, err := node.RPCCall(ctx, CallData{Message: &mock.Request{}, Method: "mock.Server.Test"})
		cancel()
		if err == nil {
			t.Fatal("RPCCall on an unreachable node: got no error")
		}
	}
	node.channel.responseMut.Lock()
	routers := len(node.channel.responseRouters)
	node.channel.responseMut.Unlock()
	if routers != 0 {
		t.Errorf("%d routers left", routers)
	}
	after := cancelChildren(node.channel.parentCtx)
	t.Logf("contexts registered with the node's context: %d before, %d after %d failed calls", before, after, calls)
	if after > before+2 {
		t.Errorf("the node's context keeps %d more child contexts after %d failed calls: one per call", after-before, calls)
	}
}
