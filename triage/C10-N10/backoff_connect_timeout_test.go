package gorums_test

import (
	"context"
	"net"
	"sync/atomic"
	"testing"
	"time"

	"github.com/relab/gorums"
	"github.com/relab/gorums/tests/dummy"
	"google.golang.org/grpc"
	"google.golang.org/grpc/backoff"
	"google.golang.org/grpc/credentials/insecure"
)

// A node crashes and is restarted on the same address. Setting up a connection
// to it takes 300 ms (a distant or loaded node). With the default back-off the
// node is used again by the calls that follow; with a manager that was created
// with a small back-off configuration (WithBackoff) it must be as well.

type slowNetSrv struct{}

func (slowNetSrv) Test(_ gorums.ServerCtx, _ *dummy.Empty) (*dummy.Empty, error) {
	return &dummy.Empty{}, nil
}

func startSlowNetSrv(t *testing.T, addr string) (*gorums.Server, string) {
	t.Helper()
	var (
		lis net.Listener
		err error
	)
	for end := time.Now().Add(5 * time.Second); ; {
		lis, err = net.Listen("tcp", addr)
		if err == nil {
			break
		}
		if time.Now().After(end) {
			t.Fatalf("cannot listen on %s: %v", addr, err)
		}
		time.Sleep(50 * time.Millisecond)
	}
	srv := gorums.NewServer()
	dummy.RegisterDummyServer(srv, slowNetSrv{})
	go func() { _ = srv.Serve(lis) }()
	return srv, lis.Addr().String()
}

func testRestartOnSlowNetwork(t *testing.T, opts ...gorums.ManagerOption) {
	srv, addr := startSlowNetSrv(t, "127.0.0.1:0")
	defer func() { srv.Stop() }()

	// the time it takes to set up a connection; honours the deadline that
	// gRPC gives to the connection attempt.
	var setupDelay atomic.Int64
	dialer := func(ctx context.Context, addr string) (net.Conn, error) {
		if d := time.Duration(setupDelay.Load()); d > 0 {
			select {
			case <-time.After(d):
			case <-ctx.Done():
				return nil, ctx.Err()
			}
		}
		var nd net.Dialer
		return nd.DialContext(ctx, "tcp", addr)
	}

	opts = append(opts, gorums.WithGrpcDialOptions(
		grpc.WithTransportCredentials(insecure.NewCredentials()),
		grpc.WithContextDialer(dialer),
	))
	mgr := dummy.NewManager(opts...)
	defer mgr.Close()
	if _, err := mgr.NewConfiguration(gorums.WithNodeList([]string{addr})); err != nil {
		t.Fatal(err)
	}
	node := mgr.Nodes()[0]
	call := func(timeout time.Duration) error {
		ctx, cancel := context.WithTimeout(context.Background(), timeout)
		defer cancel()
		_, err := node.Test(ctx, &dummy.Empty{})
		return err
	}
	if err := call(5 * time.Second); err != nil {
		t.Fatalf("call on a healthy node: %v", err)
	}

	// crash and restart on the same address
	srv.Stop()
	setupDelay.Store(int64(300 * time.Millisecond))
	srv, _ = startSlowNetSrv(t, addr)

	// the node is listening again: the calls that follow must get through to
	// it. Be generous: keep calling for 15 seconds.
	var err error
	start := time.Now()
	for n := 1; time.Since(start) < 15*time.Second; n++ {
		if err = call(3 * time.Second); err == nil {
			t.Logf("call %d, %v after the restart, got the node's reply", n, time.Since(start).Round(time.Millisecond))
			return
		}
		time.Sleep(100 * time.Millisecond)
	}
	t.Errorf("no call reached the restarted node within %v; last error: %v", time.Since(start).Round(time.Second), err)
}

func TestRestartOnSlowNetworkDefaultBackoff(t *testing.T) {
	testRestartOnSlowNetwork(t)
}

func TestRestartOnSlowNetworkSmallBackoff(t *testing.T) {
	testRestartOnSlowNetwork(t, gorums.WithBackoff(backoff.Config{
		BaseDelay:  10 * time.Millisecond,
		Multiplier: 1.6,
		Jitter:     0.2,
		MaxDelay:   100 * time.Millisecond,
	}))
}
