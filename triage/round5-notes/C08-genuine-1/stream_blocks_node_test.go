package correctable

import (
	"context"
	"errors"
	"net"
	"testing"
	"time"

	"github.com/relab/gorums"
	"google.golang.org/grpc"
	"google.golang.org/grpc/credentials/insecure"
)

// silentListener accepts TCP connections and never says anything on them:
// a blocking dial to it lasts until the dial timeout.
func silentListener(t *testing.T) (addr string, stop func()) {
	t.Helper()
	lis, err := net.Listen("tcp", "127.0.0.1:0")
	if err != nil {
		t.Fatal(err)
	}
	done := make(chan struct{})
	go func() {
		var conns []net.Conn
		defer func() {
			for _, c := range conns {
				c.Close()
			}
		}()
		for {
			c, err := lis.Accept()
			if err != nil {
				<-done
				return
			}
			conns = append(conns, c)
		}
	}()
	return lis.Addr().String(), func() { close(done); lis.Close() }
}

// A call with a short deadline on a healthy node A must return when its
// deadline passes, although a server-stream correctable call on {A, B} is in
// flight, where B is a node whose sender is busy (here: re-dialing a host that
// does not answer).
func TestShortCallBehindStreamOnSameNode(t *testing.T) { shortCallOnA(t, true) }

// Control: the same construction without the server-stream call.
func TestShortCallWithoutStreamOnSameNode(t *testing.T) { shortCallOnA(t, false) }

func shortCallOnA(t *testing.T, withStream bool) {
	const dialTimeout = 5 * time.Second

	addrs, teardown := gorums.TestSetup(t, 1, func(_ int) gorums.ServerIface {
		srv := gorums.NewServer()
		RegisterCorrectableTestServer(srv, &testSrv{8}) // streams 8 replies per request
		return srv
	})
	defer teardown()
	addrA := addrs[0]
	addrB, stopB := silentListener(t)
	defer stopB()

	mgr := NewManager(
		gorums.WithDialTimeout(dialTimeout),
		gorums.WithGrpcDialOptions(
			grpc.WithBlock(),
			grpc.WithTransportCredentials(insecure.NewCredentials()),
		),
	)
	defer mgr.Close()

	qs := qspec{div: 1, doneLevel: 1 << 20} // never done
	// A gets the smaller ID: the calls queue their request for A first.
	cfgAB, err := mgr.NewConfiguration(qs, gorums.WithNodeMap(map[string]uint32{addrA: 1, addrB: 2}))
	if err != nil {
		t.Fatal(err)
	}
	cfgA, err := mgr.NewConfiguration(qs, gorums.WithNodeIDs([]uint32{1}))
	if err != nil {
		t.Fatal(err)
	}
	cfgB, err := mgr.NewConfiguration(qs, gorums.WithNodeIDs([]uint32{2}))
	if err != nil {
		t.Fatal(err)
	}

	long, cancelLong := context.WithTimeout(context.Background(), 30*time.Second)
	defer cancelLong()

	// sanity: A works
	{
		ctx, cancel := context.WithTimeout(context.Background(), 5*time.Second)
		c := cfgA.Correctable(ctx, &CorrectableRequest{})
		select {
		case <-c.Watch(1):
		case <-time.After(10 * time.Second):
			t.Fatal("node A does not answer")
		}
		cancel()
	}

	// 1. occupy B's sender: it takes this request and re-dials B, which lasts dialTimeout.
	//    The call returns as soon as the sender has taken the request.
	cfgB.Correctable(long, &CorrectableRequest{})

	// 2. a patient server-stream call on {A, B}: its request goes out to A,
	//    then it waits for B's sender.
	if withStream {
		go cfgAB.CorrectableStream(long, &CorrectableRequest{})
	}
	time.Sleep(500 * time.Millisecond) // let A stream its replies

	// 3. a call with a short deadline on A alone.
	const deadline = 300 * time.Millisecond
	const bound = deadline + 1500*time.Millisecond
	ctx, cancel := context.WithTimeout(context.Background(), deadline)
	defer cancel()
	start := time.Now()
	res := make(chan *CorrectableCorrectableResponse, 1)
	go func() { res <- cfgA.Correctable(ctx, &CorrectableRequest{}) }()

	var corr *CorrectableCorrectableResponse
	select {
	case corr = <-res:
	case <-time.After(20 * time.Second):
		t.Fatalf("Correctable() on A did not return within 20s (deadline %v)", deadline)
	}
	returned := time.Since(start)
	select {
	case <-corr.Done():
	case <-time.After(20 * time.Second):
		t.Fatalf("correctable on A not done 20s after the call (deadline %v)", deadline)
	}
	done := time.Since(start)
	_, _, err = corr.Get()
	t.Logf("call returned after %v, done after %v, err = %v", returned, done, err)
	if returned > bound || done > bound {
		t.Errorf("call with a %v deadline on A: returned after %v, done after %v; want both within %v", deadline, returned, done, bound)
	}
	if done >= deadline && !errors.Is(err, ctx.Err()) {
		t.Errorf("errors.Is(%v, %v) = false", err, ctx.Err())
	}
}
