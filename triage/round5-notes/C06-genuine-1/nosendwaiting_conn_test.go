package oneway_test

import (
	"context"
	"net"
	"sync"
	"sync/atomic"
	"testing"
	"time"

	"github.com/relab/gorums"
	"github.com/relab/gorums/tests/oneway"
	"google.golang.org/grpc"
	"google.golang.org/grpc/credentials/insecure"
)

type connTestSrv struct {
	got chan uint64
}

func (s *connTestSrv) Unicast(_ gorums.ServerCtx, r *oneway.Request)          { s.got <- r.GetNum() }
func (s *connTestSrv) Multicast(_ gorums.ServerCtx, r *oneway.Request)        { s.got <- r.GetNum() }
func (s *connTestSrv) MulticastPerNode(_ gorums.ServerCtx, r *oneway.Request) { s.got <- r.GetNum() }

// holdDialer refuses connections at first; after hold is set, a connection
// attempt waits until the gate is opened and connects then.
type holdDialer struct {
	hold    atomic.Bool
	gate    chan struct{}
	entered chan struct{}
	once    sync.Once
}

func (d *holdDialer) dial(ctx context.Context, addr string) (net.Conn, error) {
	if !d.hold.Load() {
		return nil, &net.OpError{Op: "dial", Net: "tcp", Err: net.ErrClosed}
	}
	d.once.Do(func() { close(d.entered) })
	select {
	case <-d.gate:
	case <-ctx.Done():
		return nil, ctx.Err()
	}
	return (&net.Dialer{}).DialContext(ctx, "tcp", addr)
}

// TestNoSendWaitingDoesNotWaitForConnection: a one-way call with the option
// WithNoSendWaiting is documented to "return immediately instead of blocking
// until the message has been sent"; it must not wait for the connection either.
// The node of this test is not connected, and connecting takes long (the
// connection attempt is held by the test). Two Unicast calls with the option are
// made; both must return while the connection attempt is still pending, and both
// messages must arrive, in order, once the node is connected.
func TestNoSendWaitingDoesNotWaitForConnection(t *testing.T) {
	srvImpl := &connTestSrv{got: make(chan uint64, 16)}
	addrs, closeServers := gorums.TestSetup(t, 1, func(_ int) gorums.ServerIface {
		srv := gorums.NewServer()
		oneway.RegisterOnewayTestServer(srv, srvImpl)
		return srv
	})
	defer closeServers()

	dialer := &holdDialer{gate: make(chan struct{}), entered: make(chan struct{})}
	var openOnce sync.Once
	openGate := func() { openOnce.Do(func() { close(dialer.gate) }) }
	defer openGate()

	mgr := oneway.NewManager(
		gorums.WithGrpcDialOptions(
			grpc.WithTransportCredentials(insecure.NewCredentials()),
			grpc.WithContextDialer(dialer.dial),
		),
	)
	defer mgr.Close()
	cfg, err := mgr.NewConfiguration(gorums.WithNodeMap(map[string]uint32{addrs[0]: 1}))
	if err != nil {
		t.Fatal(err)
	}
	node := cfg.Nodes()[0]
	dialer.hold.Store(true)

	call := func(num uint64) <-chan struct{} {
		done := make(chan struct{})
		go func() {
			defer close(done)
			node.Unicast(context.Background(), &oneway.Request{Num: num}, gorums.WithNoSendWaiting())
		}()
		return done
	}

	// first call: the idle sending goroutine takes the message and starts to connect
	select {
	case <-call(1):
	case <-time.After(10 * time.Second):
		t.Fatal("first Unicast with WithNoSendWaiting did not return")
	}
	select {
	case <-dialer.entered:
	case <-time.After(10 * time.Second):
		t.Fatal("no connection attempt")
	}

	// second call: the connection attempt is pending, and stays so until the gate is opened
	second := call(2)
	select {
	case <-second:
	case <-time.After(5 * time.Second):
		t.Error("second Unicast with WithNoSendWaiting has not returned after 5s: it waits for the connection to the node")
	}

	openGate()
	select {
	case <-second:
	case <-time.After(20 * time.Second):
		t.Fatal("second Unicast with WithNoSendWaiting did not return even after the node was connected")
	}
	for want := uint64(1); want <= 2; want++ {
		select {
		case got := <-srvImpl.got:
			if got != want {
				t.Errorf("server got Num=%d, want %d", got, want)
			}
		case <-time.After(10 * time.Second):
			t.Fatalf("server did not get message %d after the node was connected", want)
		}
	}
}
