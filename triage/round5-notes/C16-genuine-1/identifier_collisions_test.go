package gengorums

// Identifier collisions that the reserved-name guard does not cover.
//
// For each input the plugin must either stop with a diagnostic or emit code
// that compiles together with the standard message code. For the inputs below
// the unchanged generator does neither: it generates silently and the package
// does not compile.
//
// The generator runs in a child process (this test binary re-executed with
// GIC_CHILD set), because it reports bad input with log.Fatal. A child that
// exits with a non-zero status counts as "rejected with a diagnostic".

import (
	"bytes"
	"context"
	"fmt"
	"os"
	"os/exec"
	"path/filepath"
	"strings"
	"testing"
	"time"

	"github.com/relab/gorums"
	"google.golang.org/protobuf/cmd/protoc-gen-go/internal_gengo"
	"google.golang.org/protobuf/compiler/protogen"
	"google.golang.org/protobuf/proto"
	"google.golang.org/protobuf/reflect/protodesc"
	"google.golang.org/protobuf/types/descriptorpb"
	"google.golang.org/protobuf/types/pluginpb"
)

const gicModPath = "github.com/relab/gorums/cmd/protoc-gen-gorums/gengorums/testdata"

func gicMsg(name string) *descriptorpb.DescriptorProto {
	return &descriptorpb.DescriptorProto{
		Name: proto.String(name),
		Field: []*descriptorpb.FieldDescriptorProto{{
			Name:     proto.String("value"),
			Number:   proto.Int32(1),
			Label:    descriptorpb.FieldDescriptorProto_LABEL_OPTIONAL.Enum(),
			Type:     descriptorpb.FieldDescriptorProto_TYPE_STRING.Enum(),
			JsonName: proto.String("value"),
		}},
	}
}

func gicMethod(name string, async bool) *descriptorpb.MethodDescriptorProto {
	o := &descriptorpb.MethodOptions{}
	proto.SetExtension(o, gorums.E_Quorumcall, true)
	if async {
		proto.SetExtension(o, gorums.E_Async, true)
	}
	return &descriptorpb.MethodDescriptorProto{
		Name:       proto.String(name),
		InputType:  proto.String(".kv.Request"),
		OutputType: proto.String(".kv.Response"),
		Options:    o,
	}
}

func gicRequest(variant, dir string) *pluginpb.CodeGeneratorRequest {
	goPkg := gicModPath + "/" + dir + "/kv"
	svc := &descriptorpb.FileDescriptorProto{
		Name:        proto.String(dir + "/service.proto"),
		Package:     proto.String("kv"),
		Syntax:      proto.String("proto3"),
		Dependency:  []string{"gorums.proto"},
		Options:     &descriptorpb.FileOptions{GoPackage: proto.String(goPkg)},
		MessageType: []*descriptorpb.DescriptorProto{gicMsg("Request"), gicMsg("Response")},
	}
	sd := &descriptorpb.ServiceDescriptorProto{Name: proto.String("Storage")}
	files := []*descriptorpb.FileDescriptorProto{
		protodesc.ToFileDescriptorProto(descriptorpb.File_google_protobuf_descriptor_proto),
		protodesc.ToFileDescriptorProto(gorums.File_gorums_proto),
	}
	var generate []string
	switch variant {
	case "control":
		sd.Method = append(sd.Method, gicMethod("Read", false), gicMethod("ReadAsync", true))
	case "reserved_message_in_other_file_of_package":
		// message Node lives in types.proto, which has the same go_package
		// and is imported by (and generated together with) service.proto
		types := &descriptorpb.FileDescriptorProto{
			Name:        proto.String(dir + "/types.proto"),
			Package:     proto.String("kv"),
			Syntax:      proto.String("proto3"),
			Options:     &descriptorpb.FileOptions{GoPackage: proto.String(goPkg)},
			MessageType: []*descriptorpb.DescriptorProto{gicMsg("Node")},
		}
		svc.Dependency = append(svc.Dependency, types.GetName())
		files = append(files, types)
		generate = append(generate, types.GetName())
		sd.Method = append(sd.Method, gicMethod("Read", false))
	case "enum_with_reserved_name":
		svc.EnumType = append(svc.EnumType, &descriptorpb.EnumDescriptorProto{
			Name:  proto.String("Manager"),
			Value: []*descriptorpb.EnumValueDescriptorProto{{Name: proto.String("MANAGER_UNSPECIFIED"), Number: proto.Int32(0)}},
		})
		sd.Method = append(sd.Method, gicMethod("Read", false))
	case "method_named_like_static_method":
		// the static code declares func (c *Configuration) Nodes() []*Node
		sd.Method = append(sd.Method, gicMethod("Nodes", false))
	case "message_named_like_promise_type":
		// the async method returning Response declares type AsyncResponse
		svc.MessageType = append(svc.MessageType, gicMsg("AsyncResponse"))
		sd.Method = append(sd.Method, gicMethod("Read", true))
	default:
		panic("unknown variant " + variant)
	}
	svc.Service = []*descriptorpb.ServiceDescriptorProto{sd}
	files = append(files, svc)
	generate = append(generate, svc.GetName())
	return &pluginpb.CodeGeneratorRequest{
		FileToGenerate:  generate,
		ProtoFile:       files,
		CompilerVersion: &pluginpb.Version{Major: proto.Int32(3), Minor: proto.Int32(21), Patch: proto.Int32(12)},
	}
}

func gicChild(t *testing.T, variant, dir string) {
	gen, err := protogen.Options{}.New(gicRequest(variant, dir))
	if err != nil {
		t.Fatalf("protogen: %v", err)
	}
	for _, f := range gen.Files {
		if f.Generate {
			GenerateFile(gen, f)
			internal_gengo.GenerateFile(gen, f)
		}
	}
	resp := gen.Response()
	if resp.Error != nil {
		t.Fatalf("generator reported: %v", resp.GetError())
	}
	for _, f := range resp.File {
		rel := strings.TrimPrefix(f.GetName(), gicModPath+"/")
		p := filepath.Join("testdata", filepath.FromSlash(rel))
		if err := os.MkdirAll(filepath.Dir(p), 0o755); err != nil {
			t.Fatal(err)
		}
		if err := os.WriteFile(p, []byte(f.GetContent()), 0o644); err != nil {
			t.Fatal(err)
		}
	}
}

func TestIdentifierCollisions(t *testing.T) {
	if variant := os.Getenv("GIC_CHILD"); variant != "" {
		gicChild(t, variant, os.Getenv("GIC_DIR"))
		return
	}
	base := fmt.Sprintf("gic%d_%d", os.Getpid(), time.Now().UnixNano()%1e9)
	for _, variant := range []string{
		"control",
		"reserved_message_in_other_file_of_package",
		"enum_with_reserved_name",
		"method_named_like_static_method",
		"message_named_like_promise_type",
	} {
		variant := variant
		t.Run(variant, func(t *testing.T) {
			dir := base + "_" + variant
			t.Cleanup(func() {
				os.RemoveAll(filepath.Join("testdata", dir))
				os.Remove("testdata") // removed only when empty
			})
			ctx, cancel := context.WithTimeout(context.Background(), 50*time.Second)
			defer cancel()

			child := exec.CommandContext(ctx, os.Args[0], "-test.run=^TestIdentifierCollisions$", "-test.count=1")
			child.Env = append(os.Environ(), "GIC_CHILD="+variant, "GIC_DIR="+dir)
			var out bytes.Buffer
			child.Stdout, child.Stderr = &out, &out
			if err := child.Run(); err != nil {
				if variant == "control" {
					t.Fatalf("the control input was rejected (%v):\n%s", err, out.String())
				}
				t.Logf("rejected with a diagnostic (%v):\n%s", err, out.String())
				return
			}
			build := exec.CommandContext(ctx, "go", "build", "./testdata/"+dir+"/kv")
			out.Reset()
			build.Stdout, build.Stderr = &out, &out
			if err := build.Run(); err != nil {
				t.Errorf("no diagnostic, and the generated code does not compile (%v):\n%s", err, out.String())
			}
		})
	}
}
