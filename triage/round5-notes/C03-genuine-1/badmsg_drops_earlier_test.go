package dev_test

import (
	"context"
	"sync"
	"testing"
	"time"

	"github.com/relab/gorums"
	"github.com/relab/gorums/cmd/protoc-gen-gorums/dev"
	"google.golang.org/grpc"
	"google.golang.org/grpc/credentials/insecure"
)

const unicastMethod = "dev.ZorumsService.Unicast"

// TestUnencodableRequestDoesNotDropEarlierCalls issues three one-way calls that return
// (the messages have been sent), and then a fourth whose request cannot be encoded
// (a proto3 string field that is not valid UTF-8). No context is cancelled and the
// network does not fail; the server must still handle the three calls issued earlier.
func TestUnencodableRequestDoesNotDropEarlierCalls(t *testing.T) {
	var (
		mu      sync.Mutex
		started []string
	)
	gate := make(chan struct{})
	first := make(chan struct{})
	log := func() []string {
		mu.Lock()
		defer mu.Unlock()
		return append([]string(nil), started...)
	}

	addrs, closeServers := gorums.TestSetup(t, 1, func(_ int) gorums.ServerIface {
		srv := gorums.NewServer()
		srv.RegisterHandler(unicastMethod, func(ctx gorums.ServerCtx, in *gorums.Message, _ chan<- *gorums.Message) {
			defer ctx.Release()
			req := in.Message.(*dev.Request)
			mu.Lock()
			started = append(started, req.GetValue())
			mu.Unlock()
			if req.GetValue() == "1" {
				close(first)
				// a slow handler: the calls behind it wait at the server
				select {
				case <-gate:
				case <-time.After(30 * time.Second):
				}
			}
		})
		return srv
	})
	defer closeServers()

	mgr := dev.NewManager(
		gorums.WithDialTimeout(5*time.Second),
		gorums.WithGrpcDialOptions(
			grpc.WithBlock(),
			grpc.WithTransportCredentials(insecure.NewCredentials()),
		),
	)
	defer mgr.Close()
	cfg, err := gorums.NewRawConfiguration(mgr.RawManager, gorums.WithNodeList(addrs))
	if err != nil {
		t.Fatal(err)
	}
	node := cfg.Nodes()[0]

	unicast := func(val string) {
		done := make(chan struct{})
		go func() {
			defer close(done)
			node.Unicast(context.Background(), gorums.CallData{Message: &dev.Request{Value: val}, Method: unicastMethod})
		}()
		select {
		case <-done:
		case <-time.After(10 * time.Second):
			t.Fatalf("Unicast(%q) did not return", val)
		}
	}

	unicast("1")
	unicast("2")
	unicast("3")
	select {
	case <-first:
	case <-time.After(10 * time.Second):
		t.Fatal("the server did not start the handler of the first call")
	}

	// this request cannot be marshaled
	unicast("\xff")
	time.Sleep(500 * time.Millisecond)
	close(gate)

	// a later call arrives again (on a new stream)
	deadline := time.Now().Add(15 * time.Second)
	for i := 0; time.Now().Before(deadline); i++ {
		unicast("later")
		time.Sleep(100 * time.Millisecond)
		l := log()
		if len(l) > 0 && l[len(l)-1] == "later" {
			break
		}
	}
	time.Sleep(500 * time.Millisecond)

	l := log()
	seen := make(map[string]bool)
	for _, v := range l {
		seen[v] = true
	}
	if !seen["later"] {
		t.Errorf("the server was not reached again; its log: %q", l)
	}
	for _, v := range []string{"1", "2", "3"} {
		if !seen[v] {
			t.Errorf("the server never started the handler of call %q, which returned before the unencodable request was issued; its log: %q", v, l)
		}
	}
}
