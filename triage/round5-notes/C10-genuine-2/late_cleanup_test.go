package gorums

import (
	"context"
	"net"
	"testing"
	"time"

	"github.com/relab/gorums/ordering"
	"google.golang.org/grpc"
	"google.golang.org/grpc/connectivity"
	"google.golang.org/grpc/credentials/insecure"
)

// A node crashes and is restarted on the same address. The channel's receiving
// goroutine notices the broken stream and marks it, but is slow to go on (here:
// it waits for the mutex that guards the channel's last error, which LastErr()
// callers take as well; any scheduling delay at that point does the same).
// Meanwhile a call is made: the sending goroutine sees the mark, gets a new
// stream to the restarted server and sends the request there; the server
// handles it and replies. The call must get that reply.

// a method that is known to the codec without importing a package that
// imports gorums: request and reply are ordering.Metadata messages.
const lateCleanupMethod = "ordering.Gorums.NodeStream"

func startLateCleanupSrv(t *testing.T, addr string, handled chan<- struct{}) (*Server, string) {
	t.Helper()
	var (
		lis net.Listener
		err error
	)
	for end := time.Now().Add(5 * time.Second); ; {
		lis, err = net.Listen("tcp", addr)
		if err == nil {
			break
		}
		if time.Now().After(end) {
			t.Fatalf("cannot listen on %s: %v", addr, err)
		}
		time.Sleep(50 * time.Millisecond)
	}
	srv := NewServer()
	srv.RegisterHandler(lateCleanupMethod, func(ctx ServerCtx, in *Message, finished chan<- *Message) {
		defer ctx.Release()
		_ = SendMessage(ctx, finished, WrapMessage(in.Metadata, &ordering.Metadata{}, nil))
		select {
		case handled <- struct{}{}:
		default:
		}
	})
	go func() { _ = srv.Serve(lis) }()
	return srv, lis.Addr().String()
}

func TestReplyOnNewStreamSurvivesLateCleanup(t *testing.T) {
	handled := make(chan struct{}, 16)
	srv, addr := startLateCleanupSrv(t, "127.0.0.1:0", handled)
	defer func() { srv.Stop() }()

	mgr := NewRawManager(WithGrpcDialOptions(grpc.WithTransportCredentials(insecure.NewCredentials())))
	defer mgr.Close()
	node, err := NewRawNode(addr)
	if err != nil {
		t.Fatal(err)
	}
	if err = mgr.AddNode(node); err != nil {
		t.Fatal(err)
	}
	call := func(timeout time.Duration) error {
		ctx, cancel := context.WithTimeout(context.Background(), timeout)
		defer cancel()
		_, err := node.RPCCall(ctx, CallData{Message: &ordering.Metadata{}, Method: lateCleanupMethod})
		return err
	}
	if err := call(5 * time.Second); err != nil {
		t.Fatalf("call on a healthy node: %v", err)
	}
	<-handled

	c := node.channel
	// from now on the receiving goroutine stalls between marking the stream
	// as broken and failing the pending calls.
	c.mu.Lock()
	locked := true
	unlock := func() {
		if locked {
			locked = false
			c.mu.Unlock()
		}
	}
	defer unlock()

	// crash and restart on the same address
	srv.Stop()
	srv, _ = startLateCleanupSrv(t, addr, handled)

	for end := time.Now().Add(10 * time.Second); !c.streamBroken.get(); {
		if time.Now().After(end) {
			t.Fatal("the crash was not noticed")
		}
		time.Sleep(10 * time.Millisecond)
	}

	// let the connection come up again, so that the next stream creation
	// succeeds at the first attempt.
	conn := node.conn
	wctx, wcancel := context.WithTimeout(context.Background(), 15*time.Second)
	for s := conn.GetState(); s != connectivity.Ready; s = conn.GetState() {
		if s == connectivity.Idle {
			conn.Connect()
		}
		if !conn.WaitForStateChange(wctx, s) {
			wcancel()
			unlock()
			t.Skip("inconclusive: the connection to the restarted server did not come up in time")
		}
	}
	wcancel()

	// a call on the node that is up again
	res := make(chan error, 1)
	go func() { res <- call(20 * time.Second) }()
	select {
	case <-handled:
	case <-time.After(10 * time.Second):
		unlock()
		t.Skip("inconclusive: the request did not reach the restarted server")
	}
	// the restarted server has handled the request and has sent its reply.
	time.Sleep(300 * time.Millisecond)

	// now the receiving goroutine goes on.
	unlock()
	select {
	case err := <-res:
		if err != nil {
			t.Errorf("the restarted server handled the request and replied, but the call failed: %v", err)
		}
	case <-time.After(25 * time.Second):
		t.Error("the restarted server handled the request and replied, but the call never returned")
	}
}
