package gengorums_test

// Genuine finding against C17 ("converts request, reply ... and quorum-function
// types without loss"): the typed wrapper of an async / correctable method is
// named <prefix><short name of the return type>, and the data type template
// emits one wrapper per NAME. Two legal methods whose wrapper names coincide
// although their return types differ share one wrapper, whose Get() asserts
// the return type of only one of them.
//
// For every promise-returning Configuration method M the test compares
//   - the type that the quorum function MQF returns (what the runtime stores), and
//   - the type that the Get method of M's wrapper asserts and returns.

import (
	"bytes"
	"go/ast"
	"go/parser"
	"go/printer"
	"go/token"
	"testing"

	"github.com/relab/gorums"
	"github.com/relab/gorums/cmd/protoc-gen-gorums/gengorums"
	"google.golang.org/protobuf/compiler/protogen"
	"google.golang.org/protobuf/proto"
	"google.golang.org/protobuf/reflect/protodesc"
	"google.golang.org/protobuf/types/descriptorpb"
	"google.golang.org/protobuf/types/known/emptypb"
	"google.golang.org/protobuf/types/pluginpb"
)

type wcMethod struct {
	name   string
	out    string
	stream bool
	opts   func(*descriptorpb.MethodOptions)
}

func wcGenerate(t *testing.T, msgs []string, methods []wcMethod) string {
	t.Helper()
	fd := &descriptorpb.FileDescriptorProto{
		Name:       proto.String("wc/wc.proto"),
		Package:    proto.String("wc"),
		Syntax:     proto.String("proto3"),
		Dependency: []string{"gorums.proto", "google/protobuf/empty.proto"},
		Options:    &descriptorpb.FileOptions{GoPackage: proto.String("example.com/wc")},
	}
	for _, m := range msgs {
		fd.MessageType = append(fd.MessageType, &descriptorpb.DescriptorProto{Name: proto.String(m)})
	}
	svc := &descriptorpb.ServiceDescriptorProto{Name: proto.String("WC")}
	for _, m := range methods {
		md := &descriptorpb.MethodDescriptorProto{
			Name:            proto.String(m.name),
			InputType:       proto.String(".wc.Req"),
			OutputType:      proto.String(m.out),
			ServerStreaming: proto.Bool(m.stream),
			Options:         &descriptorpb.MethodOptions{},
		}
		m.opts(md.Options)
		svc.Method = append(svc.Method, md)
	}
	fd.Service = append(fd.Service, svc)
	req := &pluginpb.CodeGeneratorRequest{
		FileToGenerate: []string{"wc/wc.proto"},
		ProtoFile: []*descriptorpb.FileDescriptorProto{
			protodesc.ToFileDescriptorProto(descriptorpb.File_google_protobuf_descriptor_proto),
			protodesc.ToFileDescriptorProto(emptypb.File_google_protobuf_empty_proto),
			protodesc.ToFileDescriptorProto(gorums.File_gorums_proto),
			fd,
		},
	}
	gen, err := protogen.Options{}.New(req)
	if err != nil {
		t.Fatal(err)
	}
	for _, f := range gen.Files {
		if f.Generate {
			gengorums.GenerateFile(gen, f)
		}
	}
	resp := gen.Response()
	if resp.Error != nil {
		t.Fatal(resp.GetError())
	}
	if len(resp.File) != 1 {
		t.Fatalf("got %d generated files, want 1", len(resp.File))
	}
	return resp.File[0].GetContent()
}

func exprString(fset *token.FileSet, e ast.Expr) string {
	var buf bytes.Buffer
	printer.Fprint(&buf, fset, e)
	return buf.String()
}

// checkWrappers reports every method whose wrapper's Get returns another type
// than the method's quorum function.
func checkWrappers(t *testing.T, src string, methods ...string) {
	t.Helper()
	fset := token.NewFileSet()
	file, err := parser.ParseFile(fset, "wc_gorums.pb.go", src, 0)
	if err != nil {
		t.Fatalf("generated code does not parse: %v", err)
	}
	qfResult := map[string]string{}      // method -> first result of <method>QF
	stubWrapper := map[string]string{}   // method -> wrapper type returned by the stub
	wrapperResult := map[string]string{} // wrapper -> first result of Get
	wrapperDecls := map[string]int{}
	for _, decl := range file.Decls {
		switch d := decl.(type) {
		case *ast.GenDecl:
			for _, spec := range d.Specs {
				ts, ok := spec.(*ast.TypeSpec)
				if !ok {
					continue
				}
				wrapperDecls[ts.Name.Name]++
				it, ok := ts.Type.(*ast.InterfaceType)
				if !ok || ts.Name.Name != "QuorumSpec" {
					continue
				}
				for _, m := range it.Methods.List {
					ft, ok := m.Type.(*ast.FuncType)
					if !ok || len(m.Names) != 1 {
						continue
					}
					name := m.Names[0].Name
					qfResult[name[:len(name)-len("QF")]] = exprString(fset, ft.Results.List[0].Type)
				}
			}
		case *ast.FuncDecl:
			if d.Recv == nil || len(d.Recv.List) != 1 || d.Type.Results == nil {
				continue
			}
			recv := exprString(fset, d.Recv.List[0].Type)
			switch {
			case recv == "*Configuration" && len(d.Type.Results.List) == 1:
				stubWrapper[d.Name.Name] = exprString(fset, d.Type.Results.List[0].Type)
			case d.Name.Name == "Get":
				wrapperResult[recv] = exprString(fset, d.Type.Results.List[0].Type)
			}
		}
	}
	for _, m := range methods {
		w, ok := stubWrapper[m]
		if !ok {
			t.Errorf("%s: no stub on Configuration", m)
			continue
		}
		get, ok := wrapperResult[w]
		if !ok {
			t.Errorf("%s: wrapper %s has no Get method", m, w)
			continue
		}
		if qf := qfResult[m]; qf != get {
			t.Errorf("%s: the quorum function returns %s, but %s.Get asserts and returns %s "+
				"(Get panics with an interface conversion, or for a correctable silently returns nil)", m, qf, w, get)
		}
	}
}

func asyncOpt(o *descriptorpb.MethodOptions) {
	proto.SetExtension(o, gorums.E_Quorumcall, true)
	proto.SetExtension(o, gorums.E_Async, true)
}

func corrOpt(o *descriptorpb.MethodOptions) { proto.SetExtension(o, gorums.E_Correctable, true) }

// Control: distinct short names - everything lines up.
func TestWrapperPerReturnType_Control(t *testing.T) {
	src := wcGenerate(t, []string{"Req", "Ack", "Rep"}, []wcMethod{
		{"Write", ".wc.Ack", false, asyncOpt},
		{"Flush", ".google.protobuf.Empty", false, asyncOpt},
		{"Read", ".wc.Rep", false, corrOpt},
		{"Watch", ".wc.Rep", true, corrOpt},
	})
	checkWrappers(t, src, "Write", "Flush", "Read", "Watch")
}

// A local message Empty next to google.protobuf.Empty: both async methods get
// the wrapper AsyncEmpty; only one Get is emitted.
func TestWrapperPerReturnType_SameShortNameInTwoPackages(t *testing.T) {
	src := wcGenerate(t, []string{"Req", "Empty"}, []wcMethod{
		{"Write", ".wc.Empty", false, asyncOpt},
		{"Flush", ".google.protobuf.Empty", false, asyncOpt},
	})
	checkWrappers(t, src, "Write", "Flush")
}

// "Correctable"+"StreamResponse" == "CorrectableStream"+"Response".
func TestWrapperPerReturnType_PrefixMeetsTypeName(t *testing.T) {
	src := wcGenerate(t, []string{"Req", "Response", "StreamResponse"}, []wcMethod{
		{"Read", ".wc.StreamResponse", false, corrOpt},
		{"Watch", ".wc.Response", true, corrOpt},
	})
	checkWrappers(t, src, "Read", "Watch")
}
