package correctable

import (
	"context"
	"net"
	"testing"
	"time"

	"github.com/relab/gorums"
	"google.golang.org/grpc"
	"google.golang.org/grpc/credentials/insecure"
)

// g1Srv streams `updates` preliminary replies at once.
type g1Srv struct{ updates int }

func (s g1Srv) CorrectableStream(_ gorums.ServerCtx, _ *CorrectableRequest, send func(*CorrectableResponse) error) error {
	for i := 0; i < s.updates; i++ {
		if err := send(&CorrectableResponse{Level: int32(i + 1)}); err != nil {
			return err
		}
	}
	return nil
}

func (s g1Srv) Correctable(_ gorums.ServerCtx, _ *CorrectableRequest) (*CorrectableResponse, error) {
	return &CorrectableResponse{Level: 1}, nil
}

// g1QSpec never reports done: the calls end by their context or by node errors.
type g1QSpec struct{}

func (g1QSpec) CorrectableQF(_ *CorrectableRequest, replies map[uint32]*CorrectableResponse) (*CorrectableResponse, int, bool) {
	return &CorrectableResponse{}, len(replies), len(replies) > 0
}

func (g1QSpec) CorrectableStreamQF(_ *CorrectableRequest, replies map[uint32]*CorrectableResponse) (*CorrectableResponse, int, bool) {
	return &CorrectableResponse{}, len(replies), false
}

func g1Serve(t *testing.T, updates int) (addr string, stop func()) {
	t.Helper()
	lis, err := net.Listen("tcp", "127.0.0.1:0")
	if err != nil {
		t.Fatal(err)
	}
	srv := gorums.NewServer()
	RegisterCorrectableTestServer(srv, g1Srv{updates})
	go func() { _ = srv.Serve(lis) }()
	return lis.Addr().String(), srv.Stop
}

// A server-stream correctable call on {A, B}: A answers with more updates than
// the configuration has nodes; B's sending goroutine is busy (its server went
// away and it waits out a reconnect backoff for an earlier request), so the
// request for B waits in enqueue until the call's context ends. The error for B
// is then delivered by the goroutine that is still inside CorrectableCall, on a
// reply channel that A's updates have filled and that nobody receives from yet.
//
// Expected by the property: the call returns, completes with the context's
// error, and node A (healthy all the time) answers a later call.
func TestStreamCallContextEndsDuringEnqueue(t *testing.T) {
	addrA, stopA := g1Serve(t, 6)
	defer stopA()
	addrB, stopB := g1Serve(t, 6)
	stoppedB := false
	defer func() {
		if !stoppedB {
			stopB()
		}
	}()

	mgr := NewManager(
		gorums.WithDialTimeout(2*time.Second),
		gorums.WithGrpcDialOptions(
			grpc.WithBlock(),
			grpc.WithTransportCredentials(insecure.NewCredentials()),
		),
	)
	// the stuck goroutines of a failing run would block Close; do not wait for it.
	defer func() { go mgr.Close() }()

	cfgAB, err := mgr.NewConfiguration(g1QSpec{}, gorums.WithNodeMap(map[string]uint32{addrA: 1, addrB: 2}))
	if err != nil {
		t.Fatal(err)
	}
	cfgA, err := mgr.NewConfiguration(g1QSpec{}, gorums.WithNodeIDs([]uint32{1}))
	if err != nil {
		t.Fatal(err)
	}
	cfgB, err := mgr.NewConfiguration(g1QSpec{}, gorums.WithNodeIDs([]uint32{2}))
	if err != nil {
		t.Fatal(err)
	}

	// both nodes work
	for _, cfg := range []*Configuration{cfgA, cfgB} {
		ctx, cancel := context.WithTimeout(context.Background(), 10*time.Second)
		c := cfg.Correctable(ctx, &CorrectableRequest{})
		<-c.Done()
		if _, _, err := c.Get(); err != nil {
			t.Fatalf("warm-up call: %v", err)
		}
		cancel()
	}

	// B goes away; its receiver notices and starts to reconnect.
	stopB()
	stoppedB = true
	time.Sleep(300 * time.Millisecond)

	// A request for B keeps B's sending goroutine busy for about a second
	// (one failed attempt, then the base delay of the default backoff).
	ctxP, cancelP := context.WithTimeout(context.Background(), 10*time.Second)
	defer cancelP()
	p := cfgB.Correctable(ctxP, &CorrectableRequest{})
	time.Sleep(150 * time.Millisecond)

	// the streaming call; its context ends while the request for B waits in enqueue.
	ctx, cancel := context.WithTimeout(context.Background(), 300*time.Millisecond)
	defer cancel()
	returned := make(chan *CorrectableStreamCorrectableResponse, 1)
	go func() { returned <- cfgAB.CorrectableStream(ctx, &CorrectableRequest{}) }()

	var corr *CorrectableStreamCorrectableResponse
	select {
	case corr = <-returned:
	case <-time.After(10 * time.Second):
		t.Fatal("CorrectableStream has not returned 10 s after its context ended")
	}
	select {
	case <-corr.Done():
	case <-time.After(10 * time.Second):
		t.Fatal("the streaming call has not completed 10 s after its context ended")
	}

	select {
	case <-p.Done():
	case <-time.After(10 * time.Second):
		t.Error("the call to the stopped node has not completed")
	}

	// probe: A has been healthy all the time.
	probeDone := make(chan error, 1)
	go func() {
		ctx, cancel := context.WithTimeout(context.Background(), 10*time.Second)
		defer cancel()
		c := cfgA.Correctable(ctx, &CorrectableRequest{})
		<-c.Done()
		_, _, err := c.Get()
		probeDone <- err
	}()
	select {
	case err := <-probeDone:
		if err != nil {
			t.Errorf("probe of node A: %v", err)
		}
	case <-time.After(15 * time.Second):
		t.Fatal("probe of node A not answered: the node is stuck")
	}
}
