package ordering

import (
	"context"
	"errors"
	"testing"
	"time"

	"github.com/relab/gorums"
)

// TestC02EmptyConfiguration makes a quorum call and an asynchronous quorum
// call on a configuration without nodes, which ConfigurationFromRaw accepts.
// No node at all is targeted, so the calls have to return Incomplete
// (errors: 0, replies: 0) at once - as they do when a per-node function
// skips every node.
func TestC02EmptyConfiguration(t *testing.T) {
	cfg, err := ConfigurationFromRaw(gorums.RawConfiguration{}, &testQSpec{quorum: 1})
	if err != nil {
		t.Skipf("an empty configuration is rejected: %v", err)
	}
	if cfg.Size() != 0 {
		t.Fatalf("Size() = %d, want 0", cfg.Size())
	}
	ctx, cancel := context.WithTimeout(context.Background(), 5*time.Second)
	defer cancel()

	t.Run("QC", func(t *testing.T) {
		defer func() {
			if r := recover(); r != nil {
				t.Fatalf("quorum call on an empty configuration panics: %v", r)
			}
		}()
		resp, err := cfg.QC(ctx, &Request{Num: 1})
		if !errors.Is(err, gorums.Incomplete) {
			t.Fatalf("QC = (%v, %v), want the Incomplete error", resp, err)
		}
	})
	t.Run("QCAsync", func(t *testing.T) {
		defer func() {
			if r := recover(); r != nil {
				t.Fatalf("asynchronous quorum call on an empty configuration panics: %v", r)
			}
		}()
		fut := cfg.QCAsync(ctx, &Request{Num: 2})
		resp, err := fut.Get() // completes with ctx at the latest
		if !errors.Is(err, gorums.Incomplete) {
			t.Fatalf("QCAsync.Get = (%v, %v), want the Incomplete error", resp, err)
		}
		if !fut.Done() {
			t.Fatal("Done reports false after Get has returned")
		}
	})
}
