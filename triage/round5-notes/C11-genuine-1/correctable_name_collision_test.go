package gengorums

import (
	"regexp"
	"strings"
	"testing"

	"github.com/relab/gorums"
	"google.golang.org/protobuf/compiler/protogen"
	"google.golang.org/protobuf/proto"
	"google.golang.org/protobuf/reflect/protodesc"
	"google.golang.org/protobuf/types/descriptorpb"
	"google.golang.org/protobuf/types/pluginpb"
)

// A plain correctable method that returns StreamReply and a correctable stream
// method that returns Reply: both legal, and the names of the messages are not
// reserved. Each method needs a typed Get that returns its own reply type.
func TestCorrectableAndCorrectableStreamTypesDoNotCollide(t *testing.T) {
	correctable := func() *descriptorpb.MethodOptions {
		opts := &descriptorpb.MethodOptions{}
		proto.SetExtension(opts, gorums.E_Correctable, true)
		return opts
	}
	msg := func(name string) *descriptorpb.DescriptorProto {
		return &descriptorpb.DescriptorProto{
			Name: proto.String(name),
			Field: []*descriptorpb.FieldDescriptorProto{{
				Name:     proto.String("value"),
				JsonName: proto.String("value"),
				Number:   proto.Int32(1),
				Label:    descriptorpb.FieldDescriptorProto_LABEL_OPTIONAL.Enum(),
				Type:     descriptorpb.FieldDescriptorProto_TYPE_INT32.Enum(),
			}},
		}
	}
	file := &descriptorpb.FileDescriptorProto{
		Name:       proto.String("collide.proto"),
		Package:    proto.String("collide"),
		Syntax:     proto.String("proto3"),
		Dependency: []string{"gorums.proto"},
		Options:    &descriptorpb.FileOptions{GoPackage: proto.String("example.com/collide;collide")},
		MessageType: []*descriptorpb.DescriptorProto{
			msg("Req"), msg("Reply"), msg("StreamReply"),
		},
		Service: []*descriptorpb.ServiceDescriptorProto{{
			Name: proto.String("Store"),
			Method: []*descriptorpb.MethodDescriptorProto{
				{
					Name:       proto.String("Read"),
					InputType:  proto.String(".collide.Req"),
					OutputType: proto.String(".collide.StreamReply"),
					Options:    correctable(),
				},
				{
					Name:            proto.String("Follow"),
					InputType:       proto.String(".collide.Req"),
					OutputType:      proto.String(".collide.Reply"),
					ServerStreaming: proto.Bool(true),
					Options:         correctable(),
				},
			},
		}},
	}
	req := &pluginpb.CodeGeneratorRequest{
		FileToGenerate: []string{"collide.proto"},
		ProtoFile: []*descriptorpb.FileDescriptorProto{
			protodesc.ToFileDescriptorProto(descriptorpb.File_google_protobuf_descriptor_proto),
			protodesc.ToFileDescriptorProto(gorums.File_gorums_proto),
			file,
		},
	}
	gen, err := protogen.Options{}.New(req)
	if err != nil {
		t.Fatal(err)
	}
	for _, f := range gen.Files {
		if f.Generate {
			GenerateFile(gen, f)
		}
	}
	resp := gen.Response()
	if resp.Error != nil {
		t.Fatalf("generator error: %s", resp.GetError())
	}
	if len(resp.File) != 1 {
		t.Fatalf("expected one generated file, got %d", len(resp.File))
	}
	code := resp.File[0].GetContent()

	// the type that each method returns
	retType := func(method string) string {
		m := regexp.MustCompile(`func \(c \*Configuration\) ` + method + `\(ctx context\.Context, in \*Req\) \*(\w+) \{`).FindStringSubmatch(code)
		if m == nil {
			t.Fatalf("method %s not found in the generated code", method)
		}
		return m[1]
	}
	// the reply type that the typed Get of the given correctable type returns
	getType := func(corrType string) []string {
		var types []string
		for _, m := range regexp.MustCompile(`func \(c \*`+corrType+`\) Get\(\) \(\*(\w+), int, error\)`).FindAllStringSubmatch(code, -1) {
			types = append(types, m[1])
		}
		return types
	}

	readType, followType := retType("Read"), retType("Follow")
	t.Logf("Read returns *%s with Get() -> %v; Follow returns *%s with Get() -> %v",
		readType, getType(readType), followType, getType(followType))

	if n := strings.Count(code, "type "+readType+" struct"); n != 1 {
		t.Errorf("type %s is declared %d times", readType, n)
	}
	if n := strings.Count(code, "type "+followType+" struct"); n != 1 {
		t.Errorf("type %s is declared %d times", followType, n)
	}
	// Read's quorum function returns *StreamReply, Follow's returns *Reply;
	// the runtime stores what the quorum function returned, and the typed
	// Get converts it with a checked assertion: with the wrong type it
	// returns nil at every level.
	if got := getType(readType); len(got) != 1 || got[0] != "StreamReply" {
		t.Errorf("Read returns *%s, whose typed Get returns %v; expected [StreamReply]", readType, got)
	}
	if got := getType(followType); len(got) != 1 || got[0] != "Reply" {
		t.Errorf("Follow returns *%s, whose typed Get returns %v; expected [Reply]", followType, got)
	}
	if !strings.Contains(code, "ReadQF(in *Req, replies map[uint32]*StreamReply) (*StreamReply, int, bool)") {
		t.Errorf("unexpected signature of ReadQF")
	}
}
