package gorums_test

import (
	"context"
	"sync/atomic"
	"testing"
	"time"

	"github.com/relab/gorums"
	"github.com/relab/gorums/tests/dummy"
	spb "google.golang.org/genproto/googleapis/rpc/status"
	"google.golang.org/grpc"
	"google.golang.org/grpc/codes"
	"google.golang.org/grpc/credentials/insecure"
	"google.golang.org/grpc/status"
	"google.golang.org/protobuf/types/known/anypb"
)

// badDetailSrv: the first request is slow (it releases the server's lock and waits
// for the gate), the second one fails with a status whose detail has a type URL
// that is not valid UTF-8, all later ones succeed.
type badDetailSrv struct {
	n       *int32
	started chan struct{}
	gate    chan struct{}
}

func (s badDetailSrv) Test(ctx gorums.ServerCtx, _ *dummy.Empty) (*dummy.Empty, error) {
	switch atomic.AddInt32(s.n, 1) {
	case 1:
		ctx.Release()
		close(s.started)
		select {
		case <-s.gate:
		case <-time.After(30 * time.Second):
		}
		return &dummy.Empty{}, nil
	case 2:
		return nil, status.FromProto(&spb.Status{
			Code:    int32(codes.NotFound),
			Message: "no such key",
			Details: []*anypb.Any{{TypeUrl: "type.googleapis.com/\xff\xfe", Value: []byte{1}}},
		}).Err()
	}
	return &dummy.Empty{}, nil
}

// Same situation as commit c0d84d1 (status text that is not valid UTF-8), but with
// the other proto3 string that a handler's status can carry: Any.type_url in the
// details. The reply cannot be marshaled, SendMsg fails, and the whole NodeStream
// ends: the caller gets "stream is down" instead of the handler's code, and so does
// every other call that is pending on the connection.
func TestHandlerStatusDetailWithInvalidTypeURL(t *testing.T) {
	var n int32
	s := badDetailSrv{n: &n, started: make(chan struct{}), gate: make(chan struct{})}
	addrs, teardown := gorums.TestSetup(t, 1, func(_ int) gorums.ServerIface {
		srv := gorums.NewServer()
		dummy.RegisterDummyServer(srv, s)
		return srv
	})
	defer teardown()
	mgr := dummy.NewManager(gorums.WithDialTimeout(10*time.Second),
		gorums.WithGrpcDialOptions(grpc.WithBlock(), grpc.WithTransportCredentials(insecure.NewCredentials())))
	defer mgr.Close()
	if _, err := mgr.NewConfiguration(gorums.WithNodeList(addrs)); err != nil {
		t.Fatal(err)
	}
	node := mgr.Nodes()[0]
	ctx, cancel := context.WithTimeout(context.Background(), 40*time.Second)
	defer cancel()

	// call A: pending on the connection while call B fails
	aDone := make(chan error, 1)
	go func() {
		_, err := node.RPCCall(ctx, gorums.CallData{Message: &dummy.Empty{}, Method: "dummy.Dummy.Test"})
		aDone <- err
	}()
	select {
	case <-s.started:
	case <-ctx.Done():
		t.Fatal("the first handler did not start")
	}

	// call B: the handler's status has a detail that cannot be marshaled
	_, err := node.RPCCall(ctx, gorums.CallData{Message: &dummy.Empty{}, Method: "dummy.Dummy.Test"})
	if got := status.Code(err); got != codes.NotFound {
		t.Errorf("call B: got %v, want the handler's code %v", err, codes.NotFound)
	}
	if st, _ := status.FromError(err); st.Message() != "no such key" {
		t.Errorf("call B: got message %q, want %q", st.Message(), "no such key")
	}

	close(s.gate)
	select {
	case err := <-aDone:
		if err != nil {
			t.Errorf("call A (other call pending on the same connection): %v", err)
		}
	case <-ctx.Done():
		t.Error("call A did not return")
	}
}
