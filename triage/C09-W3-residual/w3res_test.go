package correctable

import (
	"context"
	"testing"
	"time"

	"github.com/relab/gorums"
	"google.golang.org/grpc"
	"google.golang.org/grpc/credentials/insecure"
	"google.golang.org/protobuf/reflect/protoreflect"
)

// Residual of C09-W3: the send loop of a server-stream correctable has to answer a request locally
// (its context ended) while an earlier node has already filled the reply channel and the goroutine
// that receives replies does not exist yet.
func TestW3ResidualSendLoop(t *testing.T) {
	const n = 2
	addrs, teardown := gorums.TestSetup(t, n, func(i int) gorums.ServerIface {
		gorumsSrv := gorums.NewServer()
		RegisterCorrectableTestServer(gorumsSrv, &testSrv{4}) // every server streams 4 updates
		return gorumsSrv
	})
	defer teardown()
	mgr := NewManager(gorums.WithDialTimeout(time.Second), gorums.WithGrpcDialOptions(grpc.WithBlock(), grpc.WithTransportCredentials(insecure.NewCredentials())))
	defer mgr.Close()
	cfg, err := mgr.NewConfiguration(qspec{4, 100}, gorums.WithNodeList(addrs))
	if err != nil {
		t.Fatal(err)
	}
	ctx, cancel := context.WithCancel(context.Background())
	defer cancel()
	calls := 0
	cd := gorums.CorrectableCallData{
		Message:      &CorrectableRequest{},
		Method:       "correctable.CorrectableTest.CorrectableStream",
		ServerStream: true,
		PerNodeArgFn: func(req protoreflect.ProtoMessage, _ uint32) protoreflect.ProtoMessage {
			calls++
			if calls == 2 {
				// the first node has its request; give it time to stream its updates,
				// then let the call's context end before the second request is queued
				time.Sleep(500 * time.Millisecond)
				cancel()
			}
			return req
		},
		QuorumFunction: func(_ protoreflect.ProtoMessage, replies map[uint32]protoreflect.ProtoMessage) (protoreflect.ProtoMessage, int, bool) {
			return nil, len(replies), false
		},
	}
	returned := make(chan *gorums.Correctable, 1)
	go func() { returned <- cfg.RawConfiguration.CorrectableCall(ctx, cd) }()
	select {
	case corr := <-returned:
		select {
		case <-corr.Done():
		case <-time.After(5 * time.Second):
			t.Fatal("the call did not complete although its context ended")
		}
	case <-time.After(5 * time.Second):
		t.Fatal("CorrectableCall did not return: its send loop is stuck delivering a local answer into a full reply channel")
	}
	// the nodes must still be usable
	c2, cancel2 := context.WithTimeout(context.Background(), 3*time.Second)
	defer cancel2()
	res := cfg.Correctable(c2, &CorrectableRequest{})
	select {
	case <-res.Done():
	case <-time.After(5 * time.Second):
		t.Fatal("a later call on the same nodes did not complete")
	}
}
