package config

import (
	"context"
	"fmt"
	"net"
	"testing"
	"time"

	gorums "github.com/relab/gorums"
	"google.golang.org/grpc"
	"google.golang.org/grpc/credentials/insecure"
)

type c07HolSrv struct{ name string }

func (s c07HolSrv) Config(_ gorums.ServerCtx, req *Request) (*Response, error) {
	return &Response{Name: s.name, Num: req.GetNum()}, nil
}

// c07HolQSpec needs replies from two of the three nodes.
type c07HolQSpec struct{}

func (c07HolQSpec) ConfigQF(_ *Request, replies map[uint32]*Response) (*Response, bool) {
	if len(replies) < 2 {
		return nil, false
	}
	for _, r := range replies {
		return r, true
	}
	return nil, true
}

// TestC07DownNodeHoldsUpTheOthers stops node 1 of three and then makes quorum calls
// back to back, each with a deadline of half a second. Nodes 2 and 3 are up and answer
// within milliseconds, and two replies are a quorum, so every call must succeed.
func TestC07DownNodeHoldsUpTheOthers(t *testing.T) {
	srvs := make([]*gorums.Server, 3)
	nodeMap := make(map[string]uint32)
	for i := range srvs {
		srv := gorums.NewServer()
		RegisterConfigTestServer(srv, c07HolSrv{name: fmt.Sprintf("srv%d", i+1)})
		lis, err := net.Listen("tcp", "127.0.0.1:0")
		if err != nil {
			t.Fatal(err)
		}
		srvs[i] = srv
		nodeMap[lis.Addr().String()] = uint32(i + 1)
		go func() { _ = srv.Serve(lis) }()
	}
	defer func() {
		for _, srv := range srvs {
			srv.Stop()
		}
	}()

	mgr := NewManager(
		gorums.WithDialTimeout(10*time.Second),
		gorums.WithGrpcDialOptions(
			grpc.WithBlock(),
			grpc.WithTransportCredentials(insecure.NewCredentials()),
		),
	)
	defer mgr.Close()
	cfg, err := mgr.NewConfiguration(c07HolQSpec{}, gorums.WithNodeMap(nodeMap))
	if err != nil {
		t.Fatal(err)
	}
	ctx, cancel := context.WithTimeout(context.Background(), 20*time.Second)
	if _, err := cfg.Config(ctx, &Request{Num: 1}); err != nil {
		t.Fatalf("healthy round: unexpected error: %v", err)
	}
	cancel()

	// node 1 fails
	node1 := cfg.Nodes()[0]
	srvs[0].Stop()
	for deadline := time.Now().Add(10 * time.Second); node1.LastErr() == nil && time.Now().Before(deadline); {
		time.Sleep(10 * time.Millisecond)
	}
	if node1.ID() != 1 || node1.LastErr() == nil {
		t.Fatalf("node %d: the client did not notice that the node has stopped", node1.ID())
	}

	failed := 0
	const calls = 8
	for i := 0; i < calls; i++ {
		ctx, cancel := context.WithTimeout(context.Background(), 500*time.Millisecond)
		start := time.Now()
		_, err := cfg.Config(ctx, &Request{Num: uint64(10 + i)})
		cancel()
		if err != nil {
			failed++
			t.Errorf("call %d failed after %v although nodes 2 and 3 are up: %v", i, time.Since(start).Round(time.Millisecond), err)
		} else {
			t.Logf("call %d succeeded after %v", i, time.Since(start).Round(time.Millisecond))
		}
	}
	if failed > 0 {
		t.Errorf("%d of %d calls failed with one of three nodes down and a quorum of two", failed, calls)
	}
}
