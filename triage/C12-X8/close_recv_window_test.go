package ordering

import (
	"context"
	"sync"
	"testing"
	"time"

	"github.com/relab/gorums"
	"google.golang.org/grpc"
	"google.golang.org/grpc/credentials/insecure"
)

// recvWindowSrv answers UnaryRPC(Num) when the gate for Num is opened.
type recvWindowSrv struct {
	mu      sync.Mutex
	gates   map[uint64]chan struct{}
	started chan uint64
}

func newRecvWindowSrv() *recvWindowSrv {
	return &recvWindowSrv{gates: make(map[uint64]chan struct{}), started: make(chan uint64, 16)}
}

func (s *recvWindowSrv) gate(num uint64) chan struct{} {
	s.mu.Lock()
	defer s.mu.Unlock()
	g, ok := s.gates[num]
	if !ok {
		g = make(chan struct{})
		s.gates[num] = g
	}
	return g
}

func (s *recvWindowSrv) QC(_ gorums.ServerCtx, _ *Request) (*Response, error) {
	return &Response{InOrder: true}, nil
}

func (s *recvWindowSrv) QCAsync(_ gorums.ServerCtx, _ *Request) (*Response, error) {
	return &Response{InOrder: true}, nil
}

func (s *recvWindowSrv) UnaryRPC(ctx gorums.ServerCtx, req *Request) (*Response, error) {
	ctx.Release() // let the next request in
	s.started <- req.GetNum()
	select {
	case <-s.gate(req.GetNum()):
	case <-ctx.Done():
	}
	return &Response{InOrder: true}, nil
}

// recvHookStream lets the test act between the moment a reply has been read
// from the stream and the moment the library looks at it; that is, it stands
// for a receiving goroutine that is descheduled at that point.
type recvHookStream struct {
	grpc.ClientStream
	afterRecv func()
}

func (s *recvHookStream) RecvMsg(m interface{}) error {
	err := s.ClientStream.RecvMsg(m)
	if err == nil {
		s.afterRecv()
	}
	return err
}

// TestCloseBetweenReplyAndNextRead: two calls wait for their replies from the
// same node. The reply to the first one is read from the stream, and Close
// runs before the receiving goroutine gets to route it. After Close has
// returned, both calls must return: the first with its reply or an error, the
// second with an error.
func TestCloseBetweenReplyAndNextRead(t *testing.T) {
	srv := newRecvWindowSrv()
	addrs, closeServers := gorums.TestSetup(t, 1, func(_ int) gorums.ServerIface {
		gsrv := gorums.NewServer()
		RegisterGorumsTestServer(gsrv, srv)
		return gsrv
	})
	defer closeServers()

	replyRead := make(chan struct{}, 16)
	proceed := make(chan struct{})
	interceptor := func(ctx context.Context, desc *grpc.StreamDesc, cc *grpc.ClientConn, method string, streamer grpc.Streamer, opts ...grpc.CallOption) (grpc.ClientStream, error) {
		cs, err := streamer(ctx, desc, cc, method, opts...)
		if err != nil {
			return nil, err
		}
		return &recvHookStream{ClientStream: cs, afterRecv: func() {
			replyRead <- struct{}{}
			select {
			case <-proceed:
			case <-time.After(20 * time.Second):
			}
		}}, nil
	}

	mgr := NewManager(
		gorums.WithDialTimeout(5*time.Second),
		gorums.WithGrpcDialOptions(
			grpc.WithBlock(),
			grpc.WithTransportCredentials(insecure.NewCredentials()),
			grpc.WithStreamInterceptor(interceptor),
		),
	)
	defer mgr.Close()
	cfg, err := mgr.NewConfiguration(&testQSpec{1}, gorums.WithNodeList(addrs))
	if err != nil {
		t.Fatal(err)
	}
	node := cfg.Nodes()[0]

	type result struct {
		num uint64
		err error
	}
	results := make(chan result, 2)
	for _, num := range []uint64{1, 2} {
		num := num
		go func() {
			_, err := node.UnaryRPC(context.Background(), &Request{Num: num})
			results <- result{num, err}
		}()
		// both calls are awaiting their replies
		select {
		case <-srv.started:
		case <-time.After(20 * time.Second):
			t.Fatalf("call %d did not reach the server", num)
		}
	}

	// the server answers call 1; the client reads the reply from the stream
	close(srv.gate(1))
	select {
	case <-replyRead:
	case <-time.After(20 * time.Second):
		t.Fatal("the reply to call 1 did not arrive")
	}

	// Close strikes now
	closed := make(chan struct{})
	go func() {
		mgr.Close()
		close(closed)
	}()
	select {
	case <-closed:
	case <-time.After(20 * time.Second):
		t.Fatal("Close did not return")
	}
	close(proceed)

	for i := 0; i < 2; i++ {
		select {
		case r := <-results:
			t.Logf("call %d returned: err=%v", r.num, r.err)
			if r.num == 2 && r.err == nil {
				t.Errorf("call 2 returned without error although the server never answered it")
			}
		case <-time.After(15 * time.Second):
			t.Fatalf("%d call(s) still blocked 15 s after Close returned", 2-i)
		}
	}
}
