package oneway_test

// C06, last clause: "with the no-send-waiting option [unicast and multicast]
// additionally return without waiting for the connection."
//
// Goes into tests/oneway (package oneway_test). FAILS ON THE UNCHANGED TREE.

import (
	"context"
	"errors"
	"net"
	"sync"
	"sync/atomic"
	"testing"
	"time"

	"github.com/relab/gorums"
	"github.com/relab/gorums/tests/oneway"
	"google.golang.org/grpc"
	"google.golang.org/grpc/credentials/insecure"
)

type nswSrv struct {
	mu   sync.Mutex
	nums []uint64
}

func (s *nswSrv) add(n uint64) {
	s.mu.Lock()
	s.nums = append(s.nums, n)
	s.mu.Unlock()
}

func (s *nswSrv) got() []uint64 {
	s.mu.Lock()
	defer s.mu.Unlock()
	return append([]uint64(nil), s.nums...)
}

func (s *nswSrv) Unicast(_ gorums.ServerCtx, r *oneway.Request)          { s.add(r.GetNum()) }
func (s *nswSrv) Multicast(_ gorums.ServerCtx, r *oneway.Request)        { s.add(r.GetNum()) }
func (s *nswSrv) MulticastPerNode(_ gorums.ServerCtx, r *oneway.Request) { s.add(r.GetNum()) }

func TestC06NoSendWaitingDoesNotWaitForConnection(t *testing.T) {
	impl := &nswSrv{}
	addrs, closeServers := gorums.TestSetup(t, 1, func(int) gorums.ServerIface {
		srv := gorums.NewServer()
		oneway.RegisterOnewayTestServer(srv, impl)
		return srv
	})
	defer closeServers()

	// The network: at first the node refuses connections, later a connection
	// attempt takes as long as the test wants (a SYN into a black hole).
	var refuse, slow atomic.Bool
	refuse.Store(true)
	connectNow := make(chan struct{})
	dialing := make(chan struct{}, 16)
	dialer := func(ctx context.Context, addr string) (net.Conn, error) {
		if refuse.Load() {
			return nil, errors.New("connection refused")
		}
		if slow.Load() {
			dialing <- struct{}{}
			select {
			case <-connectNow:
			case <-ctx.Done():
				return nil, ctx.Err()
			}
		}
		return (&net.Dialer{}).DialContext(ctx, "tcp", addr)
	}

	mgr := oneway.NewManager(
		gorums.WithGrpcDialOptions(
			grpc.WithTransportCredentials(insecure.NewCredentials()),
			grpc.WithContextDialer(dialer),
		),
	)
	defer mgr.Close()
	cfg, err := mgr.NewConfiguration(gorums.WithNodeMap(map[string]uint32{addrs[0]: 0}))
	if err != nil {
		t.Fatal(err)
	}
	node := cfg.Nodes()[0]

	refuse.Store(false)
	slow.Store(true)

	returned := make(chan uint64, 2)
	for _, num := range []uint64{1, 2} {
		num := num
		go func() {
			node.Unicast(context.Background(), &oneway.Request{Num: num}, gorums.WithNoSendWaiting())
			returned <- num
		}()
		if num == 1 {
			select {
			case <-dialing: // the node's sender is now establishing the connection for message 1
			case <-time.After(5 * time.Second):
				t.Fatal("no connection attempt")
			}
		}
	}

	// both calls have the no-send-waiting option: both return although the connection is not there yet
	timeout := time.After(2 * time.Second)
	for i := 0; i < 2; i++ {
		select {
		case <-returned:
		case <-timeout:
			t.Errorf("only %d of 2 Unicast calls with WithNoSendWaiting returned while the node is still connecting", i)
			i = 2
		}
	}

	// the connection comes up: both messages are delivered once
	close(connectNow)
	deadline := time.Now().Add(5 * time.Second)
	for len(impl.got()) < 2 && time.Now().Before(deadline) {
		time.Sleep(5 * time.Millisecond)
	}
	time.Sleep(100 * time.Millisecond)
	if got := impl.got(); len(got) != 2 {
		t.Errorf("server received %v, want messages 1 and 2 once each", got)
	}
}
