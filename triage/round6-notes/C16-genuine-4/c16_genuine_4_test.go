package gengorums_test

import (
	"testing"

	"github.com/relab/gorums"
	"google.golang.org/protobuf/types/descriptorpb"
)

// diagnosedOrCompiles is the property: the plugin ends with a diagnostic,
// or with output that compiles together with the standard message code.
func diagnosedOrCompiles(t *testing.T, goDirs []string, generate []string, protos ...*descriptorpb.FileDescriptorProto) {
	t.Helper()
	req := request(generate, protos...)
	res := runPlugin(t, req)
	if res.diagnosed() {
		t.Logf("rejected with a diagnostic (exit status %d): %s", res.exit, res.stderr)
		return
	}
	if out := compile(t, goDirs, messageCode(t, req), res.files()); out != "" {
		t.Errorf("exit status 0, no diagnostic, but the output does not compile:\n%s", out)
	}
}

var reqResp = []*descriptorpb.DescriptorProto{msg("Request"), msg("Response")}

// 4. Imported message types are referred to as <package>.<Type> inside function
// bodies whose parameters and locals are called req, in, cd, c, f, r, k, v, ...
// If the imported Go package has one of these names the reference is shadowed.
func TestGenuineImportedPackageNamedLikeLocalVariable(t *testing.T) {
	for _, pkg := range []string{"req", "in", "cd"} {
		t.Run(pkg, func(t *testing.T) {
			top := "zc16g1" + pkg
			types := file(top+"/t.proto", "zc16g1."+pkg, top+"/"+pkg, nil, reqResp)
			svc := file(top+"/a.proto", "zc16g1", top+"/a", []string{"gorums.proto", top + "/t.proto"}, nil,
				service("Storage", rpc("Read", ".zc16g1."+pkg+".Request", ".zc16g1."+pkg+".Response", on(gorums.E_Quorumcall))))
			diagnosedOrCompiles(t, []string{top + "/" + pkg, top + "/a"}, []string{top + "/t.proto", top + "/a.proto"}, types, svc)
		})
	}
}
