package correctable

import (
	"context"
	"runtime"
	"strings"
	"testing"
	"time"

	"github.com/relab/gorums"
	"google.golang.org/grpc"
	"google.golang.org/grpc/credentials/insecure"
)

func libraryGoroutines(frame string) int {
	buf := make([]byte, 1<<20)
	buf = buf[:runtime.Stack(buf, true)]
	return strings.Count(string(buf), frame)
}

// Every node has sent all the replies it will ever send for a stream
// correctable call (its handler has returned nil) and every connection is
// healthy. The quorum function has not declared the call done. Nothing is
// outstanding any more - but the client cannot know: the protocol has no
// end-of-stream marker, so with a context that never ends the call's goroutine
// and its routers stay until the manager is closed.
func TestC18StreamCorrectableAfterAllNodesFinished(t *testing.T) {
	const n = 3
	addrs, teardown := gorums.TestSetup(t, n, func(i int) gorums.ServerIface {
		srv := gorums.NewServer()
		RegisterCorrectableTestServer(srv, &testSrv{2}) // two replies per node, then the handler returns nil
		return srv
	})
	defer teardown()
	mgr := NewManager(
		gorums.WithDialTimeout(time.Second),
		gorums.WithGrpcDialOptions(grpc.WithBlock(), grpc.WithTransportCredentials(insecure.NewCredentials())),
	)
	defer mgr.Close()
	// level = sum of the nodes' levels; the nodes reach 2 each, i.e. 6; done only at 100
	cfg, err := mgr.NewConfiguration(qspec{1, 100}, gorums.WithNodeList(addrs))
	if err != nil {
		t.Fatal(err)
	}
	before := libraryGoroutines("handleCorrectableCall")
	corr := cfg.CorrectableStream(context.Background(), &CorrectableRequest{})
	select {
	case <-corr.Watch(2 * n): // every node's last reply has been processed
	case <-time.After(5 * time.Second):
		t.Fatal("the call did not reach the level of all final replies")
	}
	time.Sleep(500 * time.Millisecond)
	select {
	case <-corr.Done():
		return // the call has ended; nothing to look at
	default:
	}
	if after := libraryGoroutines("handleCorrectableCall"); after > before {
		t.Errorf("all %d nodes have finished answering, yet %d goroutine(s) of the call (and one router per node) remain; they stay until Manager.Close", n, after-before)
	}
}
