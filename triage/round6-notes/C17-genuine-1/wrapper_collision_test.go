package gengorums_test

import (
	"os"
	"os/exec"
	"path/filepath"
	"strings"
	"testing"

	"github.com/relab/gorums"
	"github.com/relab/gorums/cmd/protoc-gen-gorums/gengorums"
	"google.golang.org/protobuf/cmd/protoc-gen-go/internal_gengo"
	"google.golang.org/protobuf/compiler/protogen"
	"google.golang.org/protobuf/proto"
	"google.golang.org/protobuf/reflect/protodesc"
	"google.golang.org/protobuf/reflect/protoreflect"
	"google.golang.org/protobuf/runtime/protoimpl"
	"google.golang.org/protobuf/types/descriptorpb"
	"google.golang.org/protobuf/types/known/emptypb"
	"google.golang.org/protobuf/types/pluginpb"
)

type opt struct {
	ext *protoimpl.ExtensionInfo
	val interface{}
}

func method(name, in, out string, serverStream bool, opts ...opt) *descriptorpb.MethodDescriptorProto {
	m := &descriptorpb.MethodDescriptorProto{
		Name:       proto.String(name),
		InputType:  proto.String(in),
		OutputType: proto.String(out),
	}
	if serverStream {
		m.ServerStreaming = proto.Bool(true)
	}
	if len(opts) > 0 {
		m.Options = &descriptorpb.MethodOptions{}
		for _, o := range opts {
			proto.SetExtension(m.Options, o.ext, o.val)
		}
	}
	return m
}

func msg(name string) *descriptorpb.DescriptorProto {
	return &descriptorpb.DescriptorProto{
		Name: proto.String(name),
		Field: []*descriptorpb.FieldDescriptorProto{{
			Name:     proto.String("value"),
			JsonName: proto.String("value"),
			Number:   proto.Int32(1),
			Type:     descriptorpb.FieldDescriptorProto_TYPE_STRING.Enum(),
			Label:    descriptorpb.FieldDescriptorProto_LABEL_OPTIONAL.Enum(),
		}},
	}
}

func depClosure(fd protoreflect.FileDescriptor, seen map[string]bool, out *[]*descriptorpb.FileDescriptorProto) {
	if seen[fd.Path()] {
		return
	}
	seen[fd.Path()] = true
	imps := fd.Imports()
	for i := 0; i < imps.Len(); i++ {
		depClosure(imps.Get(i).FileDescriptor, seen, out)
	}
	*out = append(*out, protodesc.ToFileDescriptorProto(fd))
}

// generate runs protoc-gen-go and protoc-gen-gorums (as libraries) on the given files.
func generate(t *testing.T, toGen []string, files ...*descriptorpb.FileDescriptorProto) map[string]string {
	t.Helper()
	req := &pluginpb.CodeGeneratorRequest{
		Parameter:      proto.String("paths=source_relative"),
		FileToGenerate: toGen,
	}
	seen := map[string]bool{}
	depClosure(gorums.File_gorums_proto, seen, &req.ProtoFile)
	depClosure(emptypb.File_google_protobuf_empty_proto, seen, &req.ProtoFile)
	req.ProtoFile = append(req.ProtoFile, files...)
	m := map[string]string{}
	for _, which := range []string{"go", "gorums"} {
		g, err := protogen.Options{}.New(req)
		if err != nil {
			t.Fatal(err)
		}
		for _, f := range g.Files {
			if f.Generate {
				if which == "go" {
					internal_gengo.GenerateFile(g, f)
				} else {
					gengorums.GenerateFile(g, f)
				}
			}
		}
		resp := g.Response()
		if resp.Error != nil {
			t.Fatal(*resp.Error)
		}
		for _, f := range resp.File {
			m[f.GetName()] = f.GetContent()
		}
	}
	return m
}

// runPackage writes the files into a fresh package directory inside the gorums
// module and runs `go test` there. It returns the combined output and the error.
func runPackage(t *testing.T, pkgDir string, files map[string]string) (string, error) {
	t.Helper()
	root, err := filepath.Abs("../../..")
	if err != nil {
		t.Fatal(err)
	}
	dir := filepath.Join(root, pkgDir)
	if err := os.MkdirAll(dir, 0o755); err != nil {
		t.Fatal(err)
	}
	t.Cleanup(func() { os.RemoveAll(filepath.Join(root, strings.Split(filepath.ToSlash(pkgDir), "/")[0])) })
	for name, content := range files {
		if err := os.WriteFile(filepath.Join(dir, filepath.Base(name)), []byte(content), 0o644); err != nil {
			t.Fatal(err)
		}
	}
	cmd := exec.Command("go", "test", "-vet=off", "-count=1", "-timeout=60s", ".")
	cmd.Dir = dir
	out, err := cmd.CombinedOutput()
	return string(out), err
}

const collTest = `package coll

import (
	"context"
	"testing"
	"time"

	"github.com/relab/gorums"
	"google.golang.org/grpc"
	"google.golang.org/grpc/credentials/insecure"
	"google.golang.org/protobuf/types/known/emptypb"
)

type srv struct{}

func (srv) A(_ gorums.ServerCtx, _ *Request) (*Empty, error)         { return &Empty{Value: "a"}, nil }
func (srv) B(_ gorums.ServerCtx, _ *Request) (*emptypb.Empty, error) { return &emptypb.Empty{}, nil }

type qs struct{}

func (qs) AQF(_ *Request, r map[uint32]*Empty) (*Empty, bool) {
	for _, v := range r {
		return v, true
	}
	return nil, false
}

func (qs) BQF(_ *Request, r map[uint32]*emptypb.Empty) (*emptypb.Empty, bool) {
	for _, v := range r {
		return v, true
	}
	return nil, false
}

func TestE2E(t *testing.T) {
	addrs, stop := gorums.TestSetup(t, 1, func(int) gorums.ServerIface {
		s := gorums.NewServer()
		RegisterCollServer(s, srv{})
		return s
	})
	defer stop()
	mgr := NewManager(gorums.WithDialTimeout(time.Second), gorums.WithGrpcDialOptions(
		grpc.WithBlock(), grpc.WithTransportCredentials(insecure.NewCredentials())))
	defer mgr.Close()
	cfg, err := mgr.NewConfiguration(qs{}, gorums.WithNodeList(addrs))
	if err != nil {
		t.Fatal(err)
	}
	ctx, cancel := context.WithTimeout(context.Background(), 5*time.Second)
	defer cancel()
	if _, err := cfg.B(ctx, &Request{}).Get(); err != nil {
		t.Errorf("B: %v", err)
	}
	var a interface{}
	a, err = cfg.A(ctx, &Request{}).Get()
	if err != nil {
		t.Errorf("A: %v", err)
	}
	if e, ok := a.(*Empty); !ok || e.GetValue() != "a" {
		t.Errorf("A: got %T %v, want *Empty with value a", a, a)
	}
}
`

func TestGenuineWrapperTypeCollision(t *testing.T) {
	f := &descriptorpb.FileDescriptorProto{
		Name:        proto.String("coll/coll.proto"),
		Package:     proto.String("coll"),
		Syntax:      proto.String("proto3"),
		Dependency:  []string{"gorums.proto", "google/protobuf/empty.proto"},
		Options:     &descriptorpb.FileOptions{GoPackage: proto.String("github.com/relab/gorums/zz_c17_coll/coll")},
		MessageType: []*descriptorpb.DescriptorProto{msg("Request"), msg("Empty")},
		Service: []*descriptorpb.ServiceDescriptorProto{{
			Name: proto.String("Coll"),
			Method: []*descriptorpb.MethodDescriptorProto{
				method("A", ".coll.Request", ".coll.Empty", false, opt{gorums.E_Quorumcall, true}, opt{gorums.E_Async, true}),
				method("B", ".coll.Request", ".google.protobuf.Empty", false, opt{gorums.E_Quorumcall, true}, opt{gorums.E_Async, true}),
			},
		}},
	}
	files := generate(t, []string{"coll/coll.proto"}, f)
	files["e2e_test.go"] = collTest
	out, err := runPackage(t, "zz_c17_coll/coll", files)
	t.Log(out)
	if err != nil {
		t.Fatal(err)
	}
}
