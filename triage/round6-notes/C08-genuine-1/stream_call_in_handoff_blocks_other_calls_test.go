package correctable

import (
	"context"
	"errors"
	"testing"
	"time"

	"github.com/relab/gorums"
	"google.golang.org/grpc"
	"google.golang.org/grpc/backoff"
	"google.golang.org/grpc/credentials/insecure"
)

// manyRepliesSrv streams 50 replies to a stream call, as fast as it can.
type manyRepliesSrv struct{}

func (manyRepliesSrv) CorrectableStream(_ gorums.ServerCtx, _ *CorrectableRequest, send func(*CorrectableResponse) error) error {
	for i := 0; i < 50; i++ {
		if err := send(&CorrectableResponse{Level: 1}); err != nil {
			return err
		}
	}
	return nil
}

func (manyRepliesSrv) Correctable(_ gorums.ServerCtx, _ *CorrectableRequest) (*CorrectableResponse, error) {
	return &CorrectableResponse{Level: 1}, nil
}

// Same defect as in slow_qf_blocks_other_calls_test.go, without any slow user code.
//
// Node 2 has crashed and its sending goroutine is busy (reconnect back-off, 4 s).
// A patient stream correctable on {1, 2} has handed its request to node 1 and
// waits for node 2's sending goroutine; the goroutine that receives the call's
// replies is started after the hand-off loop. Node 1 streams its replies
// meanwhile. A call on node 1 only, with a 200 ms deadline, must complete when
// its context ends.
func TestOtherCallEndsWithItsContextWhileStreamCallIsHandingOff(t *testing.T) {
	newSrv := func(int) gorums.ServerIface {
		srv := gorums.NewServer()
		RegisterCorrectableTestServer(srv, manyRepliesSrv{})
		return srv
	}
	addrs1, stop1 := gorums.TestSetup(t, 1, newSrv)
	defer stop1()
	addrs2, stop2 := gorums.TestSetup(t, 1, newSrv)

	mgr := NewManager(
		gorums.WithDialTimeout(time.Second),
		gorums.WithBackoff(backoff.Config{BaseDelay: 4 * time.Second, Multiplier: 1.6, Jitter: 0, MaxDelay: 20 * time.Second}),
		gorums.WithGrpcDialOptions(grpc.WithBlock(), grpc.WithTransportCredentials(insecure.NewCredentials())),
	)
	defer mgr.Close()
	qs := qspec{1, 1 << 30} // never done
	both, err := mgr.NewConfiguration(qs, gorums.WithNodeMap(map[string]uint32{addrs1[0]: 1, addrs2[0]: 2}))
	if err != nil {
		t.Fatal(err)
	}
	only1, err := mgr.NewConfiguration(qs, gorums.WithNodeIDs([]uint32{1}))
	if err != nil {
		t.Fatal(err)
	}
	only2, err := mgr.NewConfiguration(qs, gorums.WithNodeIDs([]uint32{2}))
	if err != nil {
		t.Fatal(err)
	}

	stop2() // node 2 crashes
	time.Sleep(300 * time.Millisecond)

	patient, cancelPatient := context.WithTimeout(context.Background(), 30*time.Second)
	defer cancelPatient()
	// keeps node 2's sending goroutine busy for the back-off delay
	go only2.Correctable(patient, &CorrectableRequest{})
	time.Sleep(200 * time.Millisecond)
	// call A: hands its request to node 1, then waits for node 2's sending goroutine
	go both.CorrectableStream(patient, &CorrectableRequest{})
	time.Sleep(300 * time.Millisecond)

	// call B: node 1 only, short deadline
	const timeout = 200 * time.Millisecond
	const bound = 2 * time.Second
	ctxB, cancelB := context.WithTimeout(context.Background(), timeout)
	defer cancelB()
	start := time.Now()
	finished := make(chan error, 1)
	go func() {
		b := only1.Correctable(ctxB, &CorrectableRequest{})
		<-b.Done()
		_, _, err := b.Get()
		finished <- err
	}()
	select {
	case err := <-finished:
		t.Logf("call B completed after %v: err=%v", time.Since(start), err)
		if err != nil && ctxB.Err() != nil && !errors.Is(err, ctxB.Err()) {
			t.Errorf("call B: error %v does not match the context's error %v", err, ctxB.Err())
		}
	case <-time.After(timeout + bound):
		t.Fatalf("call B (deadline %v) has not completed %v after its context ended", timeout, bound)
	}
}
