package correctable

import (
	"context"
	"errors"
	"sync"
	"testing"
	"time"

	"github.com/relab/gorums"
	"google.golang.org/grpc"
	"google.golang.org/grpc/credentials/insecure"
)

// slowQSpec has a quorum function for the stream call that waits, on its
// first invocation, until the test releases it. A quorum function is user
// code; it may be slow (it may verify signatures, write to disk, ...).
type slowQSpec struct {
	entered chan struct{} // closed when the stream QF is entered for the first time
	release chan struct{} // the stream QF returns when this is closed
	once    *sync.Once
}

func (q slowQSpec) CorrectableStreamQF(_ *CorrectableRequest, replies map[uint32]*CorrectableResponse) (*CorrectableResponse, int, bool) {
	q.once.Do(func() { close(q.entered) })
	<-q.release
	return nil, gorums.LevelNotSet, false
}

func (q slowQSpec) CorrectableQF(_ *CorrectableRequest, replies map[uint32]*CorrectableResponse) (*CorrectableResponse, int, bool) {
	for _, r := range replies {
		return r, 1, true
	}
	return nil, gorums.LevelNotSet, false
}

// floodSrv streams many replies to a stream call, as fast as it can.
type floodSrv struct{}

func (floodSrv) CorrectableStream(ctx gorums.ServerCtx, _ *CorrectableRequest, send func(*CorrectableResponse) error) error {
	for i := 0; i < 50; i++ {
		if err := send(&CorrectableResponse{Level: int32(i + 1)}); err != nil {
			return err
		}
	}
	return nil
}

func (floodSrv) Correctable(_ gorums.ServerCtx, _ *CorrectableRequest) (*CorrectableResponse, error) {
	return &CorrectableResponse{Level: 1}, nil
}

// A (patient) stream correctable is busy in its quorum function while its
// node keeps sending replies. Another call on the same node, with a short
// deadline, must still complete promptly when its context ends (or earlier).
func TestOtherCallEndsWithItsContextWhileStreamCallIsSlow(t *testing.T) {
	addrs, teardown := gorums.TestSetup(t, 1, func(int) gorums.ServerIface {
		srv := gorums.NewServer()
		RegisterCorrectableTestServer(srv, floodSrv{})
		return srv
	})
	defer teardown()

	mgr := NewManager(
		gorums.WithDialTimeout(time.Second),
		gorums.WithGrpcDialOptions(grpc.WithBlock(), grpc.WithTransportCredentials(insecure.NewCredentials())),
	)
	defer mgr.Close()
	qs := slowQSpec{entered: make(chan struct{}), release: make(chan struct{}), once: new(sync.Once)}
	cfg, err := mgr.NewConfiguration(qs, gorums.WithNodeList(addrs))
	if err != nil {
		t.Fatal(err)
	}

	// call A: patient stream call whose quorum function is slow
	ctxA, cancelA := context.WithCancel(context.Background())
	defer cancelA()
	defer close(qs.release)
	cfg.CorrectableStream(ctxA, &CorrectableRequest{})
	select {
	case <-qs.entered:
	case <-time.After(5 * time.Second):
		t.Fatal("setup: the stream call's quorum function was not invoked")
	}
	// let the node's further replies arrive at the client
	time.Sleep(300 * time.Millisecond)

	// call B: short deadline, same node
	const timeout = 200 * time.Millisecond
	const bound = 2 * time.Second
	ctxB, cancelB := context.WithTimeout(context.Background(), timeout)
	defer cancelB()
	start := time.Now()
	finished := make(chan error, 1)
	go func() {
		b := cfg.Correctable(ctxB, &CorrectableRequest{})
		<-b.Done()
		_, _, err := b.Get()
		finished <- err
	}()
	select {
	case err := <-finished:
		t.Logf("call B completed after %v: err=%v", time.Since(start), err)
		if err != nil && !errors.Is(err, ctxB.Err()) {
			t.Errorf("call B: error %v does not match the context's error %v", err, ctxB.Err())
		}
	case <-time.After(timeout + bound):
		t.Fatalf("call B (deadline %v) has not completed %v after its context ended", timeout, bound)
	}
}
