package config

import (
	"context"
	"fmt"
	"sync"
	"testing"
	"time"

	gorums "github.com/relab/gorums"
	"google.golang.org/grpc"
	"google.golang.org/grpc/credentials/insecure"
)

type gateSrv struct {
	name string
	mu   sync.Mutex
	gate map[uint64]chan struct{} // per request Num: the handler waits for the channel
	in   chan uint64
}

func (s *gateSrv) Config(ctx gorums.ServerCtx, req *Request) (*Response, error) {
	ctx.Release()
	s.in <- req.GetNum()
	s.mu.Lock()
	g := s.gate[req.GetNum()]
	s.mu.Unlock()
	if g != nil {
		select {
		case <-g:
		case <-time.After(3 * time.Second):
		}
	}
	return &Response{Name: s.name, Num: req.GetNum()}, nil
}

type stampQSpec struct {
	quorum  int
	mu      sync.Mutex
	foreign []string
}

func (q *stampQSpec) ConfigQF(req *Request, replies map[uint32]*Response) (*Response, bool) {
	q.mu.Lock()
	defer q.mu.Unlock()
	for id, r := range replies {
		if r.GetNum() != req.GetNum() {
			q.foreign = append(q.foreign, fmt.Sprintf("call %d was shown a reply of node %d produced for call %d", req.GetNum(), id, r.GetNum()))
		}
	}
	if len(replies) < q.quorum {
		return nil, false
	}
	return &Response{Name: "verdict", Num: req.GetNum()}, true
}

func TestC01ConfigurationWithNodesOfAnotherManager(t *testing.T) {
	srvs := []*gateSrv{{gate: map[uint64]chan struct{}{}, in: make(chan uint64, 10)}, {gate: map[uint64]chan struct{}{}, in: make(chan uint64, 10)}}
	addrs, closeServers := gorums.TestSetup(t, 2, func(i int) gorums.ServerIface {
		srv := gorums.NewServer()
		RegisterConfigTestServer(srv, srvs[i])
		return srv
	})
	defer closeServers()
	opts := []gorums.ManagerOption{gorums.WithDialTimeout(500 * time.Millisecond), gorums.WithGrpcDialOptions(grpc.WithBlock(), grpc.WithTransportCredentials(insecure.NewCredentials()))}
	mgrA := NewManager(opts...)
	defer mgrA.Close()
	mgrB := NewManager(opts...)
	defer mgrB.Close()
	qA := &stampQSpec{quorum: 1}
	qB := &stampQSpec{quorum: 1}
	qAB := &stampQSpec{quorum: 2}
	cA, err := mgrA.NewConfiguration(qA, gorums.WithNodeMap(map[string]uint32{addrs[0]: 1}))
	if err != nil {
		t.Fatal(err)
	}
	cB, err := mgrB.NewConfiguration(qB, gorums.WithNodeMap(map[string]uint32{addrs[1]: 2}))
	if err != nil {
		t.Fatal(err)
	}
	cAB, err := mgrA.NewConfiguration(qAB, cA.And(cB))
	if err != nil {
		t.Fatal(err)
	}
	t.Log(cAB.NodeIDs())
	g10, g20 := make(chan struct{}), make(chan struct{})
	srvs[1].gate[10] = g10
	srvs[1].gate[20] = g20
	type result struct {
		resp *Response
		err  error
	}
	r1 := make(chan result, 1)
	go func() {
		ctx, cancel := context.WithTimeout(context.Background(), 2*time.Second)
		defer cancel()
		resp, err := cAB.Config(ctx, &Request{Num: 10})
		r1 <- result{resp, err}
	}()
	<-srvs[1].in
	r2 := make(chan result, 1)
	go func() {
		ctx, cancel := context.WithTimeout(context.Background(), 2*time.Second)
		defer cancel()
		resp, err := cB.Config(ctx, &Request{Num: 20})
		r2 <- result{resp, err}
	}()
	<-srvs[1].in
	// both requests are at node 2 now: it answers the call on cAB first
	close(g10)
	var a, b result
	select {
	case a = <-r1:
		close(g20)
		b = <-r2
	case b = <-r2:
		close(g20)
		a = <-r1
	}
	t.Log(a, b)
	for _, q := range []*stampQSpec{qA, qB, qAB} {
		for _, f := range q.foreign {
			t.Error(f)
		}
	}
	if a.err != nil || b.err != nil {
		t.Error(a.err, b.err)
	}
}
