package gengorums_test

// Harness shared by the C16 demonstrations: it builds the protoc-gen-gorums
// plugin, feeds it a CodeGeneratorRequest assembled from programmatic
// descriptors (protoc is not needed), and compiles the emitted package
// together with the standard protoc-gen-go message code.

import (
	"bytes"
	"fmt"
	"os"
	"os/exec"
	"path/filepath"
	"strings"
	"sync"
	"testing"

	"github.com/relab/gorums"
	gengo "google.golang.org/protobuf/cmd/protoc-gen-go/internal_gengo"
	"google.golang.org/protobuf/compiler/protogen"
	"google.golang.org/protobuf/proto"
	"google.golang.org/protobuf/reflect/protodesc"
	"google.golang.org/protobuf/reflect/protoreflect"
	"google.golang.org/protobuf/types/descriptorpb"
	"google.golang.org/protobuf/types/known/emptypb"
	"google.golang.org/protobuf/types/pluginpb"
)

const modulePath = "github.com/relab/gorums"

var (
	buildOnce  sync.Once
	pluginPath string
	moduleRoot string
	buildErr   error
)

// plugin builds the plugin binary once and returns its path and the module root.
func plugin(t *testing.T) (string, string) {
	t.Helper()
	buildOnce.Do(func() {
		out, err := exec.Command("go", "list", "-m", "-f", "{{.Dir}}").Output()
		if err != nil {
			buildErr = fmt.Errorf("go list -m: %v", err)
			return
		}
		moduleRoot = strings.TrimSpace(string(out))
		dir, err := os.MkdirTemp("", "c16plugin")
		if err != nil {
			buildErr = err
			return
		}
		pluginPath = filepath.Join(dir, "protoc-gen-gorums")
		cmd := exec.Command("go", "build", "-o", pluginPath, "./cmd/protoc-gen-gorums")
		cmd.Dir = moduleRoot
		if b, err := cmd.CombinedOutput(); err != nil {
			buildErr = fmt.Errorf("building plugin: %v\n%s", err, b)
		}
	})
	if buildErr != nil {
		t.Fatal(buildErr)
	}
	return pluginPath, moduleRoot
}

// wellKnown returns the descriptors every request needs, in dependency order.
func wellKnown() []*descriptorpb.FileDescriptorProto {
	return []*descriptorpb.FileDescriptorProto{
		protodesc.ToFileDescriptorProto(descriptorpb.File_google_protobuf_descriptor_proto),
		protodesc.ToFileDescriptorProto(emptypb.File_google_protobuf_empty_proto),
		protodesc.ToFileDescriptorProto(gorums.File_gorums_proto),
	}
}

// msg returns a message with a single string field.
func msg(name string, nested ...*descriptorpb.DescriptorProto) *descriptorpb.DescriptorProto {
	return &descriptorpb.DescriptorProto{
		Name: proto.String(name),
		Field: []*descriptorpb.FieldDescriptorProto{{
			Name:     proto.String("value"),
			JsonName: proto.String("value"),
			Number:   proto.Int32(1),
			Label:    descriptorpb.FieldDescriptorProto_LABEL_OPTIONAL.Enum(),
			Type:     descriptorpb.FieldDescriptorProto_TYPE_STRING.Enum(),
		}},
		NestedType: nested,
	}
}

type opt struct {
	ext protoreflect.ExtensionType
	val interface{}
}

func on(ext protoreflect.ExtensionType) opt { return opt{ext, true} }

// rpc returns a method descriptor; in and out are fully qualified (".pkg.Msg").
func rpc(name, in, out string, opts ...opt) *descriptorpb.MethodDescriptorProto {
	m := &descriptorpb.MethodDescriptorProto{
		Name:       proto.String(name),
		InputType:  proto.String(in),
		OutputType: proto.String(out),
	}
	if len(opts) > 0 {
		mo := &descriptorpb.MethodOptions{}
		for _, o := range opts {
			proto.SetExtension(mo, o.ext, o.val)
		}
		m.Options = mo
	}
	return m
}

func serverStream(m *descriptorpb.MethodDescriptorProto) *descriptorpb.MethodDescriptorProto {
	m.ServerStreaming = proto.Bool(true)
	return m
}

func clientStream(m *descriptorpb.MethodDescriptorProto) *descriptorpb.MethodDescriptorProto {
	m.ClientStreaming = proto.Bool(true)
	return m
}

func service(name string, methods ...*descriptorpb.MethodDescriptorProto) *descriptorpb.ServiceDescriptorProto {
	return &descriptorpb.ServiceDescriptorProto{Name: proto.String(name), Method: methods}
}

// file returns a proto3 file placed in Go package <module>/internal/<goDir>.
func file(name, pkg, goDir string, deps []string, msgs []*descriptorpb.DescriptorProto, svcs ...*descriptorpb.ServiceDescriptorProto) *descriptorpb.FileDescriptorProto {
	return &descriptorpb.FileDescriptorProto{
		Name:        proto.String(name),
		Package:     proto.String(pkg),
		Syntax:      proto.String("proto3"),
		Dependency:  deps,
		MessageType: msgs,
		Service:     svcs,
		Options: &descriptorpb.FileOptions{
			GoPackage: proto.String(modulePath + "/internal/" + goDir),
		},
	}
}

type result struct {
	exit   int
	stderr string
	resp   *pluginpb.CodeGeneratorResponse
	raw    []byte
}

// files returns the generated files by name.
func (r result) files() map[string]string {
	m := make(map[string]string)
	if r.resp != nil {
		for _, f := range r.resp.File {
			m[f.GetName()] = f.GetContent()
		}
	}
	return m
}

// diagnosed reports whether the plugin told the user that something is wrong.
func (r result) diagnosed() bool {
	return r.exit != 0 || (r.resp != nil && r.resp.Error != nil)
}

func request(generate []string, protos ...*descriptorpb.FileDescriptorProto) *pluginpb.CodeGeneratorRequest {
	return &pluginpb.CodeGeneratorRequest{
		FileToGenerate: generate,
		ProtoFile:      append(wellKnown(), protos...),
		CompilerVersion: &pluginpb.Version{
			Major: proto.Int32(3), Minor: proto.Int32(21), Patch: proto.Int32(12),
		},
	}
}

// runPlugin runs the plugin as protoc would.
func runPlugin(t *testing.T, req *pluginpb.CodeGeneratorRequest) result {
	t.Helper()
	bin, _ := plugin(t)
	in, err := proto.Marshal(req)
	if err != nil {
		t.Fatal(err)
	}
	var stdout, stderr bytes.Buffer
	cmd := exec.Command(bin)
	cmd.Stdin = bytes.NewReader(in)
	cmd.Stdout = &stdout
	cmd.Stderr = &stderr
	err = cmd.Run()
	res := result{stderr: stderr.String(), raw: stdout.Bytes()}
	if err != nil {
		ee, ok := err.(*exec.ExitError)
		if !ok {
			t.Fatal(err)
		}
		res.exit = ee.ExitCode()
		return res
	}
	res.resp = &pluginpb.CodeGeneratorResponse{}
	if err := proto.Unmarshal(stdout.Bytes(), res.resp); err != nil {
		t.Fatalf("plugin wrote an invalid response: %v", err)
	}
	return res
}

// messageCode generates the standard .pb.go files for the request.
func messageCode(t *testing.T, req *pluginpb.CodeGeneratorRequest) map[string]string {
	t.Helper()
	gen, err := protogen.Options{}.New(req)
	if err != nil {
		t.Fatal(err)
	}
	for _, f := range gen.Files {
		if f.Generate {
			gengo.GenerateFile(gen, f)
		}
	}
	m := make(map[string]string)
	for _, f := range gen.Response().File {
		m[f.GetName()] = f.GetContent()
	}
	return m
}

// compile writes the generated files below the module root (the names are
// import-path based: github.com/relab/gorums/internal/<goDir>/x.pb.go) and
// builds the given Go package directories (relative to internal/).
// It returns the compiler output, which is empty if the code compiles.
func compile(t *testing.T, goDirs []string, fileSets ...map[string]string) string {
	t.Helper()
	_, root := plugin(t)
	var args []string
	for _, d := range goDirs {
		dir := filepath.Join(root, "internal", d)
		if err := os.RemoveAll(dir); err != nil {
			t.Fatal(err)
		}
		top := filepath.Join(root, "internal", strings.Split(d, "/")[0])
		t.Cleanup(func() { os.RemoveAll(top) })
		args = append(args, "./internal/"+d)
	}
	for _, set := range fileSets {
		for name, content := range set {
			rel := strings.TrimPrefix(name, modulePath+"/")
			if rel == name {
				t.Fatalf("unexpected generated file name %q", name)
			}
			p := filepath.Join(root, rel)
			if err := os.MkdirAll(filepath.Dir(p), 0o755); err != nil {
				t.Fatal(err)
			}
			if err := os.WriteFile(p, []byte(content), 0o644); err != nil {
				t.Fatal(err)
			}
		}
	}
	cmd := exec.Command("go", append([]string{"build"}, args...)...)
	cmd.Dir = root
	out, err := cmd.CombinedOutput()
	if err != nil {
		return string(out) + "\n" + err.Error()
	}
	return ""
}
