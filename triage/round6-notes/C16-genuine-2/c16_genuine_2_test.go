package gengorums_test

import (
	"testing"

	"github.com/relab/gorums"
	"google.golang.org/protobuf/types/descriptorpb"
)

// diagnosedOrCompiles is the property: the plugin ends with a diagnostic,
// or with output that compiles together with the standard message code.
func diagnosedOrCompiles(t *testing.T, goDirs []string, generate []string, protos ...*descriptorpb.FileDescriptorProto) {
	t.Helper()
	req := request(generate, protos...)
	res := runPlugin(t, req)
	if res.diagnosed() {
		t.Logf("rejected with a diagnostic (exit status %d): %s", res.exit, res.stderr)
		return
	}
	if out := compile(t, goDirs, messageCode(t, req), res.files()); out != "" {
		t.Errorf("exit status 0, no diagnostic, but the output does not compile:\n%s", out)
	}
}

var reqResp = []*descriptorpb.DescriptorProto{msg("Request"), msg("Response")}

// 2. An rpc whose Go name equals a method that the static code declares on
// Configuration (Nodes, And, Except) is emitted as a second method of that name.
func TestGenuineMethodNamedLikeStaticMethod(t *testing.T) {
	for _, name := range []string{"Nodes", "And", "Except"} {
		t.Run(name, func(t *testing.T) {
			dir := "zc16g1/meth" + name
			diagnosedOrCompiles(t, []string{dir}, []string{"zc16g1/a.proto"},
				file("zc16g1/a.proto", "zc16g1", dir, []string{"gorums.proto"}, reqResp,
					service("Storage", rpc(name, ".zc16g1.Request", ".zc16g1.Response", on(gorums.E_Quorumcall)))))
		})
	}
}
