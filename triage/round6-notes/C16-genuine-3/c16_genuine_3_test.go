package gengorums_test

import (
	"testing"

	"github.com/relab/gorums"
	"google.golang.org/protobuf/types/descriptorpb"
)

// diagnosedOrCompiles is the property: the plugin ends with a diagnostic,
// or with output that compiles together with the standard message code.
func diagnosedOrCompiles(t *testing.T, goDirs []string, generate []string, protos ...*descriptorpb.FileDescriptorProto) {
	t.Helper()
	req := request(generate, protos...)
	res := runPlugin(t, req)
	if res.diagnosed() {
		t.Logf("rejected with a diagnostic (exit status %d): %s", res.exit, res.stderr)
		return
	}
	if out := compile(t, goDirs, messageCode(t, req), res.files()); out != "" {
		t.Errorf("exit status 0, no diagnostic, but the output does not compile:\n%s", out)
	}
}

var reqResp = []*descriptorpb.DescriptorProto{msg("Request"), msg("Response")}

// 3. The promise types are named <Async|Correctable|CorrectableStream><Reply type>.
// A message with such a name (AsyncResponse next to an async call returning
// Response) is not reserved and not detected.
func TestGenuineMessageNamedLikeGeneratedPromiseType(t *testing.T) {
	t.Run("AsyncResponse", func(t *testing.T) {
		diagnosedOrCompiles(t, []string{"zc16g1/async"}, []string{"zc16g1/a.proto"},
			file("zc16g1/a.proto", "zc16g1", "zc16g1/async", []string{"gorums.proto"},
				append([]*descriptorpb.DescriptorProto{msg("AsyncResponse")}, reqResp...),
				service("Storage", rpc("Read", ".zc16g1.Request", ".zc16g1.Response", on(gorums.E_Quorumcall), on(gorums.E_Async)))))
	})
	t.Run("CorrectableResponse", func(t *testing.T) {
		diagnosedOrCompiles(t, []string{"zc16g1/corr"}, []string{"zc16g1/a.proto"},
			file("zc16g1/a.proto", "zc16g1", "zc16g1/corr", []string{"gorums.proto"},
				append([]*descriptorpb.DescriptorProto{msg("CorrectableResponse")}, reqResp...),
				service("Storage", rpc("Read", ".zc16g1.Request", ".zc16g1.Response", on(gorums.E_Correctable)))))
	})
}
