package gengorums_test

import (
	"bytes"
	"testing"

	"github.com/relab/gorums"
	"google.golang.org/protobuf/proto"
	"google.golang.org/protobuf/types/descriptorpb"
)

// diagnosedOrCompiles is the property: the plugin ends with a diagnostic,
// or with output that compiles together with the standard message code.
func diagnosedOrCompiles(t *testing.T, goDirs []string, generate []string, protos ...*descriptorpb.FileDescriptorProto) {
	t.Helper()
	req := request(generate, protos...)
	res := runPlugin(t, req)
	if res.diagnosed() {
		t.Logf("rejected with a diagnostic (exit status %d): %s", res.exit, res.stderr)
		return
	}
	if out := compile(t, goDirs, messageCode(t, req), res.files()); out != "" {
		t.Errorf("exit status 0, no diagnostic, but the output does not compile:\n%s", out)
	}
}

var reqResp = []*descriptorpb.DescriptorProto{msg("Request"), msg("Response")}

// 1. Only message names are checked against the reserved identifiers. A service
// (its Go name becomes the server interface) or a top-level enum with a
// reserved name collides with the static code in the same way.
func TestGenuineServiceNamedLikeReservedType(t *testing.T) {
	for _, name := range []string{"Node", "Manager", "Configuration"} {
		t.Run(name, func(t *testing.T) {
			dir := "zc16g1/svc" + name
			diagnosedOrCompiles(t, []string{dir}, []string{"zc16g1/a.proto"},
				file("zc16g1/a.proto", "zc16g1", dir, []string{"gorums.proto"}, reqResp,
					service(name, rpc("Read", ".zc16g1.Request", ".zc16g1.Response", on(gorums.E_Quorumcall)))))
		})
	}
}

func TestGenuineEnumNamedLikeReservedType(t *testing.T) {
	f := file("zc16g1/a.proto", "zc16g1", "zc16g1/enum", []string{"gorums.proto"}, reqResp,
		service("Storage", rpc("Read", ".zc16g1.Request", ".zc16g1.Response", on(gorums.E_Quorumcall))))
	f.EnumType = []*descriptorpb.EnumDescriptorProto{{
		Name:  proto.String("Node"),
		Value: []*descriptorpb.EnumValueDescriptorProto{{Name: proto.String("NODE_UNKNOWN"), Number: proto.Int32(0)}},
	}}
	diagnosedOrCompiles(t, []string{"zc16g1/enum"}, []string{"zc16g1/a.proto"}, f)
}

// Not a finding: repeated runs on the same request give byte-identical
// responses on the unchanged tree (kept as a control).
func TestControlRepeatedRunsAreIdentical(t *testing.T) {
	f := file("zc16g1/a.proto", "zc16g1", "zc16g1/det", []string{"gorums.proto", "google/protobuf/empty.proto"},
		append([]*descriptorpb.DescriptorProto{msg("MyResponse")}, reqResp...),
		service("Storage",
			rpc("Plain", ".zc16g1.Request", ".zc16g1.Response"),
			rpc("QC", ".zc16g1.Request", ".zc16g1.Response", on(gorums.E_Quorumcall)),
			rpc("QCAsync", ".zc16g1.Request", ".zc16g1.Response", on(gorums.E_Quorumcall), on(gorums.E_Async)),
			rpc("Corr", ".zc16g1.Request", ".zc16g1.Response", on(gorums.E_Correctable), opt{gorums.E_CustomReturnType, "MyResponse"}),
			serverStream(rpc("CorrS", ".zc16g1.Request", ".google.protobuf.Empty", on(gorums.E_Correctable))),
			rpc("MC", ".zc16g1.Request", ".google.protobuf.Empty", on(gorums.E_Multicast), on(gorums.E_PerNodeArg)),
			rpc("UC", ".zc16g1.Request", ".google.protobuf.Empty", on(gorums.E_Unicast)),
		))
	req := request([]string{"zc16g1/a.proto"}, f)
	first := runPlugin(t, req)
	if first.diagnosed() {
		t.Fatal(first.stderr)
	}
	for i := 0; i < 15; i++ {
		if next := runPlugin(t, req); !bytes.Equal(first.raw, next.raw) {
			t.Fatalf("run %d differs from the first run", i+2)
		}
	}
}
