package gorums_test

import (
	"testing"

	"github.com/relab/gorums"
)

// OrderedBy is variadic; the empty sequence of keys is a legal argument list.
// Every permutation of the input is ordered by no keys at all, so Sort only
// has to return a permutation of the input.
func TestSortWithoutKeys(t *testing.T) {
	var in []*gorums.RawNode
	for i, addr := range []string{"127.0.0.1:9003", "127.0.0.1:9001", "127.0.0.1:9002"} {
		n, err := gorums.NewRawNodeWithID(addr, uint32(3-i))
		if err != nil {
			t.Fatal(err)
		}
		in = append(in, n)
	}
	got := append([]*gorums.RawNode(nil), in...)
	func() {
		defer func() {
			if r := recover(); r != nil {
				t.Fatalf("OrderedBy().Sort panics: %v", r)
			}
		}()
		gorums.OrderedBy().Sort(got)
	}()
	count := make(map[*gorums.RawNode]int)
	for _, n := range in {
		count[n]++
	}
	for _, n := range got {
		count[n]--
	}
	for n, c := range count {
		if c != 0 {
			t.Errorf("not a permutation of the input (node %d: %+d)", n.ID(), -c)
		}
	}
}
