package ordering

import (
	"context"
	"net"
	"runtime"
	"strings"
	"testing"
	"time"

	"github.com/relab/gorums"
	"google.golang.org/grpc"
	"google.golang.org/grpc/credentials/insecure"
)

// channelGoroutines returns the goroutines that run code of a node's channel,
// keyed by their header line ("goroutine N [...]" without the state).
func channelGoroutines() map[string]string {
	buf := make([]byte, 4<<20)
	buf = buf[:runtime.Stack(buf, true)]
	found := make(map[string]string)
	for _, g := range strings.Split(string(buf), "\n\n") {
		if !strings.Contains(g, "gorums.(*channel).") {
			continue
		}
		var lines []string
		for i, l := range strings.Split(g, "\n") {
			if i == 0 || strings.Contains(l, "relab/gorums.") {
				lines = append(lines, strings.TrimSpace(l))
			}
		}
		id := strings.SplitN(lines[0], " [", 2)[0]
		found[id] = strings.Join(lines, "\n\t")
	}
	return found
}

// waitForChannelGoroutines waits until no goroutines other than those in
// ignore run channel code, and returns the ones that are left after 5 s.
func waitForChannelGoroutines(ignore map[string]string) []string {
	deadline := time.Now().Add(5 * time.Second)
	for {
		var left []string
		for id, g := range channelGoroutines() {
			if _, ok := ignore[id]; !ok {
				left = append(left, g)
			}
		}
		if len(left) == 0 || time.Now().After(deadline) {
			return left
		}
		time.Sleep(50 * time.Millisecond)
	}
}

// TestNodeAddedAfterClose creates a configuration with a node that the manager
// has not seen before, after the manager was closed. Calls on a closed manager
// have to fail fast, and no goroutine of the manager may be left behind.
func TestNodeAddedAfterClose(t *testing.T) {
	before := channelGoroutines() // left behind by other tests
	addrs, closeServers := gorums.TestSetup(t, 2, func(_ int) gorums.ServerIface {
		srv := gorums.NewServer()
		RegisterGorumsTestServer(srv, &testSrv{})
		return srv
	})
	defer closeServers()

	mgr := NewManager(
		gorums.WithDialTimeout(5*time.Second),
		gorums.WithGrpcDialOptions(
			grpc.WithBlock(),
			grpc.WithTransportCredentials(insecure.NewCredentials()),
		),
	)
	cfg1, err := mgr.NewConfiguration(&testQSpec{1}, gorums.WithNodeList(addrs[:1]))
	if err != nil {
		t.Fatal(err)
	}
	ctx, cancel := context.WithTimeout(context.Background(), 10*time.Second)
	if _, err := cfg1.QC(ctx, &Request{Num: 1}); err != nil {
		cancel()
		t.Fatalf("QC before Close: %v", err)
	}
	cancel()

	mgr.Close()

	cfg2, err := mgr.NewConfiguration(&testQSpec{1}, gorums.WithNodeList(addrs[1:]))
	if err != nil {
		// refusing to add nodes to a closed manager would be fine
		t.Logf("NewConfiguration after Close: %v", err)
	} else {
		ctx, cancel := context.WithTimeout(context.Background(), 10*time.Second)
		_, err := cfg2.QC(ctx, &Request{Num: 2})
		cancel()
		if err == nil {
			t.Errorf("QC on a manager that was closed: got no error")
		}
	}
	mgr.Close() // Close may be called repeatedly

	if gs := waitForChannelGoroutines(before); len(gs) != 0 {
		t.Errorf("%d goroutine(s) of the closed manager still running 5 s after Close:\n%s", len(gs), strings.Join(gs, "\n\n"))
	}
}

// TestCloseWhileNodeIsAdded: Close runs while NewConfiguration is connecting to
// the (first) node of a new configuration. After both have returned, the manager
// is closed: no goroutine of it may be left behind.
func TestCloseWhileNodeIsAdded(t *testing.T) {
	before := channelGoroutines() // left behind by other tests
	addrs, closeServers := gorums.TestSetup(t, 1, func(_ int) gorums.ServerIface {
		srv := gorums.NewServer()
		RegisterGorumsTestServer(srv, &testSrv{})
		return srv
	})
	defer closeServers()

	dialing := make(chan struct{}, 16)
	gate := make(chan struct{})
	dialer := func(ctx context.Context, addr string) (net.Conn, error) {
		dialing <- struct{}{}
		select {
		case <-gate:
		case <-ctx.Done():
			return nil, ctx.Err()
		}
		return (&net.Dialer{}).DialContext(ctx, "tcp", addr)
	}
	mgr := NewManager(
		gorums.WithDialTimeout(30*time.Second),
		gorums.WithGrpcDialOptions(
			grpc.WithBlock(),
			grpc.WithTransportCredentials(insecure.NewCredentials()),
			grpc.WithContextDialer(dialer),
		),
	)

	type result struct {
		cfg *Configuration
		err error
	}
	created := make(chan result, 1)
	go func() {
		cfg, err := mgr.NewConfiguration(&testQSpec{1}, gorums.WithNodeList(addrs))
		created <- result{cfg, err}
	}()
	select {
	case <-dialing:
	case <-time.After(10 * time.Second):
		t.Fatal("the node was not dialed")
	}

	closed := make(chan struct{})
	go func() {
		mgr.Close()
		close(closed)
	}()
	select {
	case <-closed:
	case <-time.After(10 * time.Second):
		t.Fatal("Close did not return")
	}
	close(gate)

	select {
	case r := <-created:
		if r.err != nil {
			t.Logf("NewConfiguration: %v", r.err)
			break
		}
		ctx, cancel := context.WithTimeout(context.Background(), 10*time.Second)
		_, err := r.cfg.QC(ctx, &Request{Num: 1})
		cancel()
		if err == nil {
			t.Errorf("QC on a manager that was closed: got no error")
		}
	case <-time.After(20 * time.Second):
		t.Fatal("NewConfiguration did not return")
	}
	mgr.Close()

	if gs := waitForChannelGoroutines(before); len(gs) != 0 {
		t.Errorf("%d goroutine(s) of the closed manager still running 5 s after Close:\n%s", len(gs), strings.Join(gs, "\n\n"))
	}
}
