package ordering

import (
	"context"
	"testing"
	"time"

	"github.com/relab/gorums"
	"google.golang.org/grpc"
	"google.golang.org/grpc/credentials/insecure"
)

// TestCancelAfterReplyKeepsStream makes sequential calls on one node, each with its
// own context that is cancelled as soon as the call has returned its reply (the usual
// `defer cancel()` pattern). The server and the connection stay healthy all the time,
// so every call must succeed.
func TestCancelAfterReplyKeepsStream(t *testing.T) {
	addrs, closeServers := gorums.TestSetup(t, 1, func(_ int) gorums.ServerIface {
		srv := gorums.NewServer()
		RegisterGorumsTestServer(srv, &testSrv{})
		return srv
	})
	defer closeServers()

	mgr := NewManager(
		gorums.WithDialTimeout(10*time.Second),
		gorums.WithGrpcDialOptions(
			grpc.WithBlock(),
			grpc.WithTransportCredentials(insecure.NewCredentials()),
		),
	)
	defer mgr.Close()
	cfg, err := mgr.NewConfiguration(&testQSpec{1}, gorums.WithNodeList(addrs))
	if err != nil {
		t.Fatal(err)
	}
	node := cfg.Nodes()[0]

	deadline := time.Now().Add(25 * time.Second)
	calls := 0
	for time.Now().Before(deadline) {
		calls++
		ctx, cancel := context.WithTimeout(context.Background(), 15*time.Second)
		resp, err := node.UnaryRPC(ctx, &Request{Num: uint64(calls)})
		cancel() // the call is over
		if err != nil {
			t.Fatalf("call %d: %v (response %v)", calls, err, resp)
		}
	}
	t.Logf("%d calls", calls)
}
