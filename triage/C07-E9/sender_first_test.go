package config

import (
	"context"
	"errors"
	"fmt"
	"net"
	"regexp"
	"strings"
	"sync"
	"testing"
	"time"

	gorums "github.com/relab/gorums"
	"google.golang.org/grpc"
	"google.golang.org/grpc/credentials/insecure"
)

// The connection to a node is reset while a call (A) is pending on it, and the
// sending goroutine of the node's channel is the one that learns about it first:
// the send of the next request (call B) fails. Two things are checked:
//
//  1. the error that call B reports for the node is of the unavailable kind - the
//     connection failed, not the handler;
//  2. a call (C) that is made after that, when the sender has re-established the
//     stream to the node (which is up and answers), succeeds.
//
// The order "sender first" is forced with a stream interceptor that delays the
// delivery of the old stream's receive error to the channel's receiver; the reset
// is made by closing the TCP connection that a custom dialer handed to gRPC.

type (
	g1Srv struct {
		name    string
		block   bool
		entered chan struct{}
		unblock chan struct{}
	}
	g1QSpec struct{ quorum int }
)

func (s *g1Srv) Config(ctx gorums.ServerCtx, req *Request) (*Response, error) {
	if s.block && req.GetNum() == 1 {
		ctx.Release() // later requests of this client are served meanwhile
		s.entered <- struct{}{}
		select {
		case <-s.unblock:
		case <-ctx.Done():
		}
		return nil, errors.New("gave up")
	}
	return &Response{Name: s.name, Num: req.GetNum()}, nil
}

func (q g1QSpec) ConfigQF(_ *Request, replies map[uint32]*Response) (*Response, bool) {
	if len(replies) < q.quorum {
		return nil, false
	}
	for _, r := range replies {
		return r, true
	}
	return nil, true
}

// g1Gate delays receive errors on the streams to one target until it is opened.
type g1Gate struct {
	target  string
	mu      sync.Mutex
	streams int
	stream  chan int      // number of the stream that was just created
	held    chan struct{} // a receive error is waiting at the gate
	open    chan struct{}
}

type g1Stream struct {
	grpc.ClientStream
	g *g1Gate
}

func (s *g1Stream) RecvMsg(m any) error {
	err := s.ClientStream.RecvMsg(m)
	if err != nil {
		select {
		case s.g.held <- struct{}{}:
		default:
		}
		<-s.g.open
	}
	return err
}

func (g *g1Gate) intercept(ctx context.Context, desc *grpc.StreamDesc, cc *grpc.ClientConn, method string, streamer grpc.Streamer, opts ...grpc.CallOption) (grpc.ClientStream, error) {
	cs, err := streamer(ctx, desc, cc, method, opts...)
	if err != nil || cc.Target() != g.target {
		return cs, err
	}
	g.mu.Lock()
	g.streams++
	n := g.streams
	g.mu.Unlock()
	select {
	case g.stream <- n:
	default:
	}
	return &g1Stream{ClientStream: cs, g: g}, nil
}

type g1Dialer struct {
	mu    sync.Mutex
	conns map[string][]net.Conn
}

func (d *g1Dialer) dial(ctx context.Context, addr string) (net.Conn, error) {
	c, err := (&net.Dialer{}).DialContext(ctx, "tcp", addr)
	if err == nil {
		d.mu.Lock()
		d.conns[addr] = append(d.conns[addr], c)
		d.mu.Unlock()
	}
	return c, err
}

func (d *g1Dialer) reset(addr string) int {
	d.mu.Lock()
	defer d.mu.Unlock()
	for _, c := range d.conns[addr] {
		c.Close()
	}
	n := len(d.conns[addr])
	d.conns[addr] = nil
	return n
}

type g1Result struct {
	resp *Response
	err  error
}

func TestErrorsWhenSenderNoticesBrokenStreamFirst(t *testing.T) {
	const x = 1 // index of the node whose connection is reset
	srvs := make([]*g1Srv, 3)
	for i := range srvs {
		srvs[i] = &g1Srv{entered: make(chan struct{}, 1), unblock: make(chan struct{})}
	}
	srvs[x].block = true
	defer close(srvs[x].unblock)
	addrs, stopServers := gorums.TestSetup(t, len(srvs), func(i int) gorums.ServerIface {
		srv := gorums.NewServer()
		RegisterConfigTestServer(srv, srvs[i])
		return srv
	})
	defer stopServers()
	for i := range srvs {
		srvs[i].name = addrs[i]
	}

	gate := &g1Gate{target: addrs[x], stream: make(chan int, 8), held: make(chan struct{}, 1), open: make(chan struct{})}
	var openOnce sync.Once
	openGate := func() { openOnce.Do(func() { close(gate.open) }) }
	defer openGate()
	dialer := &g1Dialer{conns: make(map[string][]net.Conn)}

	mgr := NewManager(
		gorums.WithDialTimeout(5*time.Second),
		gorums.WithGrpcDialOptions(
			grpc.WithTransportCredentials(insecure.NewCredentials()),
			grpc.WithContextDialer(dialer.dial),
			grpc.WithStreamInterceptor(gate.intercept),
		),
	)
	defer mgr.Close()

	all, err := mgr.NewConfiguration(g1QSpec{quorum: 3}, gorums.WithNodeList(addrs))
	if err != nil {
		t.Fatal(err)
	}
	var xID uint32
	for _, n := range all.Nodes() {
		if n.Address() == addrs[x] {
			xID = n.ID()
		}
	}
	onlyX, err := mgr.NewConfiguration(g1QSpec{quorum: 1}, gorums.WithNodeIDs([]uint32{xID}))
	if err != nil {
		t.Fatal(err)
	}
	select {
	case n := <-gate.stream:
		if n != 1 {
			t.Fatalf("precondition: first stream to the node has number %d", n)
		}
	case <-time.After(10 * time.Second):
		t.Fatal("precondition: no stream to the node")
	}

	// call A needs all three nodes and stays pending on x
	ctxA, cancelA := context.WithTimeout(context.Background(), 45*time.Second)
	defer cancelA()
	resA := make(chan g1Result, 1)
	go func() {
		resp, err := all.Config(ctxA, &Request{Num: 1})
		resA <- g1Result{resp, err}
	}()
	select {
	case <-srvs[x].entered:
	case <-time.After(10 * time.Second):
		t.Fatal("precondition: request of call A did not reach the node")
	}

	// the connection to x is reset; the receiver's error is kept at the gate
	if n := dialer.reset(addrs[x]); n != 1 {
		t.Fatalf("precondition: %d connections to the node, want 1", n)
	}
	select {
	case <-gate.held:
	case <-time.After(10 * time.Second):
		t.Fatal("precondition: the old stream did not fail")
	}
	select {
	case r := <-resA:
		t.Fatalf("precondition: call A completed early: %v, %v", r.resp, r.err)
	default:
	}

	// call B: its send on the dead stream fails, the sender marks the stream broken
	ctxB, cancelB := context.WithTimeout(context.Background(), 10*time.Second)
	_, errB := onlyX.Config(ctxB, &Request{Num: 2})
	cancelB()
	if errB == nil || errors.Is(errB, context.DeadlineExceeded) {
		t.Fatalf("precondition: call B on the dead stream: %v", errB)
	}
	t.Logf("call B: %v", errB)
	if lines := regexp.MustCompile(fmt.Sprintf(`(?m)^\s*node %d: (.*)$`, xID)).FindAllStringSubmatch(errB.Error(), -1); len(lines) != 1 {
		t.Errorf("call B: want exactly one error for node %d, got: %v", xID, errB)
	} else if !strings.Contains(lines[0][1], "code = Unavailable") {
		t.Errorf("call B: the connection to node %d was reset, but the node's error is not of the unavailable kind: %q", xID, lines[0][1])
	}

	// call C: the sender re-establishes the stream (the node is up) and sends
	ctxC, cancelC := context.WithTimeout(context.Background(), 20*time.Second)
	defer cancelC()
	resC := make(chan g1Result, 1)
	go func() {
		resp, err := onlyX.Config(ctxC, &Request{Num: 3})
		resC <- g1Result{resp, err}
	}()
	select {
	case n := <-gate.stream:
		if n != 2 {
			t.Fatalf("precondition: new stream has number %d", n)
		}
	case r := <-resC:
		t.Fatalf("precondition: call C completed without a new stream: %v, %v", r.resp, r.err)
	case <-time.After(10 * time.Second):
		t.Fatal("precondition: the sender did not re-establish the stream")
	}
	// give the sender the moment it needs to install the new stream
	time.Sleep(200 * time.Millisecond)

	// only now the receiver gets the error of the old stream
	openGate()

	select {
	case r := <-resA:
		if r.err == nil {
			t.Fatalf("call A: got reply %v although node %d cannot have answered", r.resp, xID)
		}
		if errors.Is(r.err, context.DeadlineExceeded) || errors.Is(r.err, context.Canceled) {
			t.Fatalf("call A was not completed for node %d, it ran into its context: %v", xID, r.err)
		}
		want := fmt.Sprintf("node %d:", xID)
		if strings.Count(r.err.Error(), want) != 1 {
			t.Fatalf("call A: want exactly one error for node %d, got: %v", xID, r.err)
		}
		t.Logf("call A: %v", r.err)
	case <-time.After(10 * time.Second):
		t.Fatalf("call A is still waiting for node %d, whose connection was reset while the call was pending on it", xID)
	}

	select {
	case r := <-resC:
		if r.err != nil {
			t.Errorf("call C was sent on the new stream to node %d, which is up and answered it, but failed: %v", xID, r.err)
		}
	case <-time.After(10 * time.Second):
		t.Errorf("call C did not complete")
	}
}
