package gengorums

import (
	"bytes"
	"context"
	"errors"
	"io"
	"os"
	"os/exec"
	"path/filepath"
	"strings"
	"testing"
	"time"

	"github.com/relab/gorums"
	gengo "google.golang.org/protobuf/cmd/protoc-gen-go/internal_gengo"
	"google.golang.org/protobuf/compiler/protogen"
	"google.golang.org/protobuf/proto"
	"google.golang.org/protobuf/reflect/protodesc"
	"google.golang.org/protobuf/runtime/protoimpl"
	"google.golang.org/protobuf/types/descriptorpb"
	"google.golang.org/protobuf/types/pluginpb"
)

const G1ChildEnv = "GORUMS_C16_G1_CHILD"

// TestG1PluginProcess is not a test by itself: when started by G1RunPlugin it
// behaves like protoc-gen-gorums' main function, reading a CodeGeneratorRequest
// from stdin and writing the response to the file named in the environment.
// Diagnostics go to stderr and log.Fatal ends the process with a non-zero
// status, exactly as in the real plugin.
func TestG1PluginProcess(t *testing.T) {
	respFile := os.Getenv(G1ChildEnv)
	if respFile == "" {
		t.Skip("helper process for the tests in this file")
	}
	fail := func(err error) {
		os.Stderr.WriteString("child: " + err.Error() + "\n")
		os.Exit(3)
	}
	in, err := io.ReadAll(os.Stdin)
	if err != nil {
		fail(err)
	}
	req := &pluginpb.CodeGeneratorRequest{}
	if err := proto.Unmarshal(in, req); err != nil {
		fail(err)
	}
	gen, err := protogen.Options{}.New(req)
	if err != nil {
		fail(err)
	}
	for _, f := range gen.Files {
		if f.Generate {
			GenerateFile(gen, f)
		}
	}
	out, err := proto.Marshal(gen.Response())
	if err != nil {
		fail(err)
	}
	if err := os.WriteFile(respFile, out, 0o644); err != nil {
		fail(err)
	}
	os.Exit(0)
}

type G1Result struct {
	exit   int
	stderr string
	files  map[string]string // by base name
}

func G1Request(t *testing.T, file *descriptorpb.FileDescriptorProto) []byte {
	t.Helper()
	req := &pluginpb.CodeGeneratorRequest{
		FileToGenerate: []string{file.GetName()},
		ProtoFile: []*descriptorpb.FileDescriptorProto{
			protodesc.ToFileDescriptorProto(descriptorpb.File_google_protobuf_descriptor_proto),
			protodesc.ToFileDescriptorProto(gorums.File_gorums_proto),
			file,
		},
	}
	in, err := proto.Marshal(req)
	if err != nil {
		t.Fatal(err)
	}
	return in
}

// G1RunPlugin runs the plugin in a process of its own on the given file.
func G1RunPlugin(t *testing.T, file *descriptorpb.FileDescriptorProto) G1Result {
	t.Helper()
	respFile := filepath.Join(t.TempDir(), "response.bin")
	ctx, cancel := context.WithTimeout(context.Background(), 40*time.Second)
	defer cancel()
	cmd := exec.CommandContext(ctx, os.Args[0], "-test.run=^TestG1PluginProcess$", "-test.timeout=35s")
	cmd.Env = append(os.Environ(), G1ChildEnv+"="+respFile)
	cmd.Stdin = bytes.NewReader(G1Request(t, file))
	var stderr, stdout bytes.Buffer
	cmd.Stderr = &stderr
	cmd.Stdout = &stdout
	err := cmd.Run()
	if ctx.Err() != nil {
		t.Fatalf("the plugin did not terminate in time; stderr:\n%s", stderr.String())
	}
	res := G1Result{stderr: stderr.String(), files: map[string]string{}}
	var exitErr *exec.ExitError
	switch {
	case err == nil:
	case errors.As(err, &exitErr):
		res.exit = exitErr.ExitCode()
	default:
		t.Fatalf("could not run the plugin process: %v", err)
	}
	if res.exit == 0 {
		b, err := os.ReadFile(respFile)
		if err != nil {
			t.Fatalf("plugin exited with status 0 but wrote no response: %v\nstdout: %s\nstderr: %s", err, stdout.String(), res.stderr)
		}
		resp := &pluginpb.CodeGeneratorResponse{}
		if err := proto.Unmarshal(b, resp); err != nil {
			t.Fatal(err)
		}
		if resp.Error != nil {
			// an error in the response is a diagnostic as well; protoc prints it and fails.
			res.exit = 1
			res.stderr += resp.GetError()
		}
		for _, f := range resp.File {
			res.files[filepath.Base(f.GetName())] = f.GetContent()
		}
	}
	return res
}

// G1MessageCode runs protoc-gen-go (as a library) on the file and returns the .pb.go files.
func G1MessageCode(t *testing.T, file *descriptorpb.FileDescriptorProto) map[string]string {
	t.Helper()
	req := &pluginpb.CodeGeneratorRequest{}
	if err := proto.Unmarshal(G1Request(t, file), req); err != nil {
		t.Fatal(err)
	}
	gen, err := protogen.Options{}.New(req)
	if err != nil {
		t.Fatal(err)
	}
	for _, f := range gen.Files {
		if f.Generate {
			gengo.GenerateFile(gen, f)
		}
	}
	resp := gen.Response()
	if resp.Error != nil {
		t.Fatalf("protoc-gen-go reported an error: %s", resp.GetError())
	}
	out := make(map[string]string)
	for _, f := range resp.File {
		out[filepath.Base(f.GetName())] = f.GetContent()
	}
	return out
}

// G1Compile writes the files into a scratch package inside the module and builds it.
func G1Compile(t *testing.T, files map[string]string) (string, error) {
	t.Helper()
	base, err := filepath.Abs("testdata")
	if err != nil {
		t.Fatal(err)
	}
	if err := os.MkdirAll(base, 0o755); err != nil {
		t.Fatal(err)
	}
	dir, err := os.MkdirTemp(base, "c16gen")
	if err != nil {
		t.Fatal(err)
	}
	t.Cleanup(func() {
		os.RemoveAll(dir)
		os.Remove(base) // only succeeds when empty
	})
	for name, content := range files {
		if err := os.WriteFile(filepath.Join(dir, name), []byte(content), 0o644); err != nil {
			t.Fatal(err)
		}
	}
	ctx, cancel := context.WithTimeout(context.Background(), 50*time.Second)
	defer cancel()
	cmd := exec.CommandContext(ctx, "go", "build", "./testdata/"+filepath.Base(dir))
	cmd.Env = append(os.Environ(), "GOFLAGS=-mod=mod", "GOWORK=off")
	outp, err := cmd.CombinedOutput()
	if ctx.Err() != nil {
		t.Fatalf("go build did not finish in time:\n%s", outp)
	}
	return string(outp), err
}

// G1DiagnosticOrCompiles checks the first clause of the property: the plugin
// either rejects the file with a diagnostic, or its output compiles together
// with the standard message code.
func G1DiagnosticOrCompiles(t *testing.T, file *descriptorpb.FileDescriptorProto) {
	t.Helper()
	res := G1RunPlugin(t, file)
	if res.exit != 0 {
		if strings.TrimSpace(res.stderr) == "" {
			t.Fatalf("plugin failed with status %d but gave no diagnostic", res.exit)
		}
		t.Logf("rejected with a diagnostic (fine): %s", strings.TrimSpace(res.stderr))
		return
	}
	if len(res.files) == 0 {
		t.Fatalf("plugin exited with status 0 without generating anything")
	}
	files := G1MessageCode(t, file)
	for name, content := range res.files {
		files[name] = content
	}
	if out, err := G1Compile(t, files); err != nil {
		t.Fatalf("plugin exited with status 0 and no diagnostic, but its output does not compile: %v\n%s", err, out)
	}
}

type G1Method struct {
	name                       string
	in, out                    string
	clientStream, serverStream bool
	flags                      []*protoimpl.ExtensionInfo
}

// G1File builds the descriptor of a proto3 file with the given messages and one service.
func G1File(pkg, service string, messages []string, methods []G1Method) *descriptorpb.FileDescriptorProto {
	str := descriptorpb.FieldDescriptorProto_TYPE_STRING.Enum()
	opt := descriptorpb.FieldDescriptorProto_LABEL_OPTIONAL.Enum()
	fd := &descriptorpb.FileDescriptorProto{
		Name:       proto.String(pkg + "/" + pkg + ".proto"),
		Package:    proto.String(pkg),
		Syntax:     proto.String("proto3"),
		Dependency: []string{"gorums.proto"},
		Options: &descriptorpb.FileOptions{
			GoPackage: proto.String("github.com/relab/gorums/c16gen/" + pkg + ";" + pkg),
		},
	}
	for _, name := range messages {
		fd.MessageType = append(fd.MessageType, &descriptorpb.DescriptorProto{
			Name: proto.String(name),
			Field: []*descriptorpb.FieldDescriptorProto{
				{Name: proto.String("value"), JsonName: proto.String("value"), Number: proto.Int32(1), Type: str, Label: opt},
			},
		})
	}
	svc := &descriptorpb.ServiceDescriptorProto{Name: proto.String(service)}
	for _, m := range methods {
		mo := &descriptorpb.MethodOptions{}
		for _, f := range m.flags {
			proto.SetExtension(mo, f, true)
		}
		md := &descriptorpb.MethodDescriptorProto{
			Name:       proto.String(m.name),
			InputType:  proto.String("." + pkg + "." + m.in),
			OutputType: proto.String("." + pkg + "." + m.out),
			Options:    mo,
		}
		if m.clientStream {
			md.ClientStreaming = proto.Bool(true)
		}
		if m.serverStream {
			md.ServerStreaming = proto.Bool(true)
		}
		svc.Method = append(svc.Method, md)
	}
	fd.Service = []*descriptorpb.ServiceDescriptorProto{svc}
	return fd
}

type G1Flags = []*protoimpl.ExtensionInfo

// Control: a message spelled exactly like a reserved identifier is rejected.
func TestReservedMessageNameIsRejected(t *testing.T) {
	res := G1RunPlugin(t, G1File("ctrlnode", "Storage", []string{"Request", "Node"}, []G1Method{
		{name: "Read", in: "Request", out: "Node", flags: G1Flags{gorums.E_Quorumcall}},
	}))
	if res.exit == 0 || !strings.Contains(res.stderr, "Node") {
		t.Fatalf("message Node was not rejected: status %d, stderr %q", res.exit, res.stderr)
	}
}

// Message names that differ from a reserved identifier only in the proto
// spelling (lower case, snake case) map to the same Go identifier. The plugin
// must reject them like the reserved name itself, or emit code that compiles.
func TestMessageNamesThatMapToReservedGoIdentifiers(t *testing.T) {
	for _, name := range []string{"node", "manager", "configuration", "quorum_spec", "new_manager"} {
		t.Run(name, func(t *testing.T) {
			pkg := "spell" + strings.ReplaceAll(name, "_", "")
			G1DiagnosticOrCompiles(t, G1File(pkg, "Storage", []string{"Request", name}, []G1Method{
				{name: "Read", in: "Request", out: name, flags: G1Flags{gorums.E_Quorumcall}},
			}))
		})
	}
}
