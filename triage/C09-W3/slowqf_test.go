package correctable

import (
	"context"
	"sync"
	"testing"
	"time"

	"github.com/relab/gorums"
	"google.golang.org/grpc"
	"google.golang.org/grpc/credentials/insecure"
)

// gatedQSpec is a quorum specification whose stream quorum function blocks on
// its first invocation until gate is closed, and then declares the call done.
type gatedQSpec struct {
	once    *sync.Once
	entered chan struct{}
	gate    chan struct{}
}

func (q gatedQSpec) CorrectableQF(_ *CorrectableRequest, replies map[uint32]*CorrectableResponse) (*CorrectableResponse, int, bool) {
	for _, r := range replies {
		return r, int(r.Level), true
	}
	return nil, 0, false
}

func (q gatedQSpec) CorrectableStreamQF(_ *CorrectableRequest, replies map[uint32]*CorrectableResponse) (*CorrectableResponse, int, bool) {
	q.once.Do(func() {
		close(q.entered)
		<-q.gate
	})
	for _, r := range replies {
		return r, int(r.Level), true
	}
	return nil, 0, false
}

// burstSrv sends a burst of updates for each streaming request and returns.
type burstSrv struct {
	updates int
	sent    chan struct{}
}

func (srv burstSrv) CorrectableStream(_ gorums.ServerCtx, _ *CorrectableRequest, send func(response *CorrectableResponse) error) error {
	for i := 0; i < srv.updates; i++ {
		if err := send(&CorrectableResponse{Level: int32(i + 1)}); err != nil {
			return err
		}
	}
	select {
	case srv.sent <- struct{}{}:
	default:
	}
	return nil
}

func (srv burstSrv) Correctable(_ gorums.ServerCtx, _ *CorrectableRequest) (*CorrectableResponse, error) {
	return &CorrectableResponse{Level: 1}, nil
}

// TestSlowStreamQuorumFunctionKeepsNodeUsable: a streaming correctable call whose
// quorum function is slower than the node's stream of updates completes
// normally; the node must then still serve a later call.
func TestSlowStreamQuorumFunctionKeepsNodeUsable(t *testing.T) {
	sent := make(chan struct{}, 1)
	addrs, teardown := gorums.TestSetup(t, 1, func(_ int) gorums.ServerIface {
		srv := gorums.NewServer()
		RegisterCorrectableTestServer(srv, burstSrv{updates: 6, sent: sent})
		return srv
	})
	defer teardown()

	mgr := NewManager(
		gorums.WithDialTimeout(5*time.Second),
		gorums.WithGrpcDialOptions(
			grpc.WithBlock(),
			grpc.WithTransportCredentials(insecure.NewCredentials()),
		),
	)
	defer mgr.Close()

	q := gatedQSpec{once: new(sync.Once), entered: make(chan struct{}), gate: make(chan struct{})}
	cfg, err := mgr.NewConfiguration(q, gorums.WithNodeList(addrs))
	if err != nil {
		t.Fatal(err)
	}

	ctx, cancel := context.WithTimeout(context.Background(), 30*time.Second)
	defer cancel()
	corr := cfg.CorrectableStream(ctx, &CorrectableRequest{})

	// the quorum function is busy with the first update ...
	select {
	case <-q.entered:
	case <-time.After(10 * time.Second):
		t.Fatal("quorum function was never invoked")
	}
	// ... while the (fast, well-behaved) handler sends the other updates and returns
	select {
	case <-sent:
	case <-time.After(10 * time.Second):
		t.Fatal("server did not send its updates")
	}
	time.Sleep(time.Second) // let the updates reach the client
	close(q.gate)           // the quorum function returns: the call is complete

	select {
	case <-corr.Done():
	case <-time.After(10 * time.Second):
		t.Fatal("streaming correctable call did not complete")
	}

	// probe: a fresh call to the same node must be delivered and answered
	probeDone := make(chan error, 1)
	go func() {
		pctx, pcancel := context.WithTimeout(context.Background(), 5*time.Second)
		defer pcancel()
		probe := cfg.Correctable(pctx, &CorrectableRequest{})
		<-probe.Done()
		_, _, err := probe.Get()
		probeDone <- err
	}()
	select {
	case err := <-probeDone:
		if err != nil {
			t.Fatalf("probe call failed: %v", err)
		}
	case <-time.After(10 * time.Second):
		t.Fatal("probe call to the node did not even return within twice its deadline: the node is stuck")
	}
}
