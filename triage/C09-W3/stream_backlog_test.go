package correctable

import (
	"context"
	"sync"
	"sync/atomic"
	"testing"
	"time"

	"github.com/relab/gorums"
	"google.golang.org/grpc"
	"google.golang.org/grpc/credentials/insecure"
)

// backlogSrv streams a fixed number of preliminary replies and counts handler starts.
type backlogSrv struct {
	updates    int
	streamDone chan struct{} // closed when the stream handler has sent everything
	once       sync.Once
	plain      int32 // number of times the Correctable handler was started
}

func (s *backlogSrv) CorrectableStream(_ gorums.ServerCtx, _ *CorrectableRequest, send func(*CorrectableResponse) error) error {
	defer s.once.Do(func() { close(s.streamDone) })
	for i := 0; i < s.updates; i++ {
		if err := send(&CorrectableResponse{Level: int32(i + 1)}); err != nil {
			return err
		}
	}
	return nil
}

func (s *backlogSrv) Correctable(_ gorums.ServerCtx, _ *CorrectableRequest) (*CorrectableResponse, error) {
	atomic.AddInt32(&s.plain, 1)
	return &CorrectableResponse{Level: 1}, nil
}

// slowQSpec is satisfied by the first reply, but its quorum function is slow:
// it takes until the servers have sent all their updates (plus a little).
type slowQSpec struct {
	streamDone <-chan struct{}
}

func (q slowQSpec) CorrectableStreamQF(_ *CorrectableRequest, replies map[uint32]*CorrectableResponse) (*CorrectableResponse, int, bool) {
	select {
	case <-q.streamDone:
	case <-time.After(10 * time.Second):
	}
	time.Sleep(300 * time.Millisecond)
	for _, r := range replies {
		return r, int(r.GetLevel()), true
	}
	return nil, gorums.LevelNotSet, false
}

func (q slowQSpec) CorrectableQF(_ *CorrectableRequest, replies map[uint32]*CorrectableResponse) (*CorrectableResponse, int, bool) {
	for _, r := range replies {
		return r, int(r.GetLevel()), true
	}
	return nil, gorums.LevelNotSet, false
}

// TestCallAfterCompletedCorrectableStream: a streaming correctable call completes at the
// client (the quorum function is satisfied) while the server has sent further updates that
// are not yet consumed. No context is cancelled and no connection fails, so the next call
// to the same node must still be handled by the server.
func TestCallAfterCompletedCorrectableStream(t *testing.T) {
	srv := &backlogSrv{updates: 8, streamDone: make(chan struct{})}
	addrs, teardown := gorums.TestSetup(t, 1, func(_ int) gorums.ServerIface {
		gorumsSrv := gorums.NewServer()
		RegisterCorrectableTestServer(gorumsSrv, srv)
		return gorumsSrv
	})
	defer teardown()

	mgr := NewManager(
		gorums.WithDialTimeout(5*time.Second),
		gorums.WithGrpcDialOptions(
			grpc.WithBlock(),
			grpc.WithTransportCredentials(insecure.NewCredentials()),
		),
	)
	defer mgr.Close()

	cfg, err := mgr.NewConfiguration(slowQSpec{srv.streamDone}, gorums.WithNodeList(addrs))
	if err != nil {
		t.Fatal(err)
	}

	// the contexts are never cancelled before the test has reached its verdict
	ctx, cancel := context.WithCancel(context.Background())
	defer cancel()

	first := cfg.CorrectableStream(ctx, &CorrectableRequest{})
	select {
	case <-first.Done():
	case <-time.After(20 * time.Second):
		t.Fatal("the streaming correctable call did not complete")
	}
	if _, _, err := first.Get(); err != nil {
		t.Fatalf("streaming correctable call: %v", err)
	}

	second := make(chan error, 1)
	go func() {
		corr := cfg.Correctable(ctx, &CorrectableRequest{})
		<-corr.Done()
		_, _, err := corr.Get()
		second <- err
	}()
	select {
	case err := <-second:
		if err != nil {
			t.Fatalf("second call: %v", err)
		}
	case <-time.After(10 * time.Second):
		t.Errorf("second call to the node did not complete; its handler was started %d times", atomic.LoadInt32(&srv.plain))
	}
	if got := atomic.LoadInt32(&srv.plain); got != 1 {
		t.Errorf("handler of the second call was started %d times, want 1", got)
	}
}
