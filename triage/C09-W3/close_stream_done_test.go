package correctable

import (
	"context"
	"runtime"
	"strings"
	"testing"
	"time"

	"github.com/relab/gorums"
	"google.golang.org/grpc"
	"google.golang.org/grpc/credentials/insecure"
)

// libGoroutines returns the stacks of the goroutines that are
// executing (or parked in) a method of gorums' client-side channel.
func libGoroutines() []string {
	buf := make([]byte, 1<<22)
	buf = buf[:runtime.Stack(buf, true)]
	var out []string
	for _, g := range strings.Split(string(buf), "\n\n") {
		if strings.Contains(g, "gorums.(*channel).") {
			out = append(out, g)
		}
	}
	return out
}

// TestCloseAfterStreamingCallCompleted completes a server-stream correctable call on the
// first reply while the server keeps streaming, then closes the manager. After Close the
// manager's goroutines must be gone and a new call must fail fast.
func TestCloseAfterStreamingCallCompleted(t *testing.T) {
	before := len(libGoroutines())
	addrs, teardown := gorums.TestSetup(t, 1, func(i int) gorums.ServerIface {
		gorumsSrv := gorums.NewServer()
		RegisterCorrectableTestServer(gorumsSrv, &testSrv{20}) // streams 20 replies
		return gorumsSrv
	})
	defer teardown()

	mgr := NewManager(
		gorums.WithDialTimeout(5*time.Second),
		gorums.WithGrpcDialOptions(
			grpc.WithBlock(),
			grpc.WithTransportCredentials(insecure.NewCredentials()),
		),
	)
	cfg, err := mgr.NewConfiguration(qspec{1, 1}, gorums.WithNodeList(addrs)) // done at level 1, i.e. on the first reply
	if err != nil {
		t.Fatal(err)
	}

	ctx, cancel := context.WithTimeout(context.Background(), 10*time.Second)
	defer cancel()
	res := cfg.CorrectableStream(ctx, &CorrectableRequest{})
	select {
	case <-res.Done():
	case <-time.After(10 * time.Second):
		t.Fatal("streaming call did not complete")
	}
	if _, _, err = res.Get(); err != nil {
		t.Fatalf("streaming call: %v", err)
	}
	time.Sleep(200 * time.Millisecond) // let the rest of the stream arrive

	closed := make(chan struct{})
	go func() { mgr.Close(); close(closed) }()
	select {
	case <-closed:
	case <-time.After(10 * time.Second):
		t.Fatal("Close did not return")
	}

	// a call issued after Close must fail fast
	callDone := make(chan error, 1)
	go func() {
		c := cfg.Correctable(context.Background(), &CorrectableRequest{})
		<-c.Done()
		_, _, err := c.Get()
		callDone <- err
	}()
	select {
	case err := <-callDone:
		if err == nil {
			t.Error("call after Close succeeded")
		}
	case <-time.After(10 * time.Second):
		t.Error("call issued after Close still blocks after 10s")
	}

	// the manager's goroutines must be gone
	deadline := time.Now().Add(10 * time.Second)
	var left []string
	for {
		left = libGoroutines()
		if len(left) <= before || time.Now().After(deadline) {
			break
		}
		time.Sleep(50 * time.Millisecond)
	}
	if len(left) > before {
		t.Errorf("%d gorums goroutines still alive 10s after Close:\n%s", len(left)-before, strings.Join(left, "\n\n"))
	}
}
