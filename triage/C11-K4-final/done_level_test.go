package correctable

import (
	"context"
	"testing"
	"time"

	"github.com/relab/gorums"
	"google.golang.org/grpc"
	"google.golang.org/grpc/credentials/insecure"
)

// tokenSrv answers a call only after it has received a token on gate.
type tokenSrv struct {
	gate chan struct{}
}

func (s tokenSrv) Correctable(ctx gorums.ServerCtx, _ *CorrectableRequest) (*CorrectableResponse, error) {
	select {
	case <-s.gate:
		return &CorrectableResponse{Level: 1}, nil
	case <-ctx.Done():
		return nil, ctx.Err()
	}
}

func (s tokenSrv) CorrectableStream(_ gorums.ServerCtx, _ *CorrectableRequest, _ func(*CorrectableResponse) error) error {
	return nil
}

// scriptQSpec reports, for the n-th reply, the n-th entry of its script.
type scriptQSpec struct {
	levels []int
	done   []bool
}

func (q scriptQSpec) qf(replies map[uint32]*CorrectableResponse) (*CorrectableResponse, int, bool) {
	i := len(replies) - 1
	return &CorrectableResponse{Level: int32(q.levels[i])}, q.levels[i], q.done[i]
}

func (q scriptQSpec) CorrectableQF(_ *CorrectableRequest, replies map[uint32]*CorrectableResponse) (*CorrectableResponse, int, bool) {
	return q.qf(replies)
}

func (q scriptQSpec) CorrectableStreamQF(_ *CorrectableRequest, replies map[uint32]*CorrectableResponse) (*CorrectableResponse, int, bool) {
	return q.qf(replies)
}

// The level that Get reports must never go down, also not when the quorum
// function reports done together with a level below one it reported earlier.
func TestCorrectableLevelDoesNotDecreaseWhenDone(t *testing.T) {
	gate := make(chan struct{})
	addrs, teardown := gorums.TestSetup(t, 2, func(_ int) gorums.ServerIface {
		srv := gorums.NewServer()
		RegisterCorrectableTestServer(srv, tokenSrv{gate})
		return srv
	})
	defer teardown()
	mgr := NewManager(
		gorums.WithDialTimeout(10*time.Second),
		gorums.WithGrpcDialOptions(
			grpc.WithBlock(),
			grpc.WithTransportCredentials(insecure.NewCredentials()),
		),
	)
	defer mgr.Close()
	// first reply: level 3, not done; second reply: level 1, done
	qspec := scriptQSpec{levels: []int{3, 1}, done: []bool{false, true}}
	cfg, err := mgr.NewConfiguration(qspec, gorums.WithNodeList(addrs))
	if err != nil {
		t.Fatal(err)
	}
	ctx, cancel := context.WithTimeout(context.Background(), 30*time.Second)
	defer cancel()
	corr := cfg.Correctable(ctx, &CorrectableRequest{})

	release := func() {
		t.Helper()
		select {
		case gate <- struct{}{}:
		case <-time.After(10 * time.Second):
			t.Fatal("no server is waiting to answer")
		}
	}
	wait := func(ch <-chan struct{}, what string) {
		t.Helper()
		select {
		case <-ch:
		case <-time.After(10 * time.Second):
			t.Fatalf("timed out waiting for %s", what)
		}
	}

	release()
	wait(corr.Watch(3), "level 3")
	_, before, err := corr.Get()
	if before != 3 || err != nil {
		t.Fatalf("after the first reply: level = %d, err = %v; want level 3", before, err)
	}
	release()
	wait(corr.Done(), "completion")
	_, after, err := corr.Get()
	if err != nil {
		t.Fatalf("unexpected error: %v", err)
	}
	if after < before {
		t.Errorf("published level decreased from %d to %d at completion", before, after)
	}
}
